"""Shared machinery for /verif/bin/check: build, TLC runs (MC / Gen / Trace), executor runs, verdicts, evidence."""
import concurrent.futures as cf
import hashlib
import json
import os
import re
import shutil
import subprocess
import sys
import time

VERIF = os.path.dirname(os.path.dirname(os.path.abspath(__file__)))
REPO = os.environ.get("VERIF_REPO", "/repo")
CACHE = os.path.join(VERIF, ".cache")
SPECS = os.path.join(VERIF, "specs")
TLA_JAR = "/opt/veriftools/tla/tla2tools.jar:/opt/veriftools/tla/CommunityModules-deps.jar"
NCPU = os.cpu_count() or 8


class Broken(Exception):
    """The check itself could not run (build/SANY/TLC/timeout): exit 2, never a VIOLATION."""


def log(*a):
    print(*a, file=sys.stderr, flush=True)


def sh(cmd, timeout=None, env=None, cwd=None, check=False):
    e = dict(os.environ)
    if env:
        e.update(env)
    try:
        p = subprocess.run(cmd, shell=isinstance(cmd, str), stdout=subprocess.PIPE, stderr=subprocess.STDOUT,
                           timeout=timeout, env=e, cwd=cwd, text=True, errors="replace")
    except subprocess.TimeoutExpired as ex:
        raise Broken("timeout after %ss: %s" % (timeout, cmd if isinstance(cmd, str) else " ".join(cmd))) from ex
    if check and p.returncode != 0:
        raise Broken("command failed (%d): %s\n%s" % (p.returncode, cmd, p.stdout[-3000:]))
    return p


# --------------------------------------------------------------------------- build
def repo_tag():
    return hashlib.md5(REPO.encode()).hexdigest()[:8]


def build_lib(flavour="hooks"):
    p = sh([os.path.join(VERIF, "bin", "vbuild"), flavour], timeout=1500, env={"VERIF_REPO": REPO})
    if p.returncode != 0:
        raise Broken("library build failed:\n" + p.stdout[-3000:])
    return p.stdout.strip().splitlines()[-1]


def build_executor(flavour="hooks"):
    """Compile harness/*.cpp against the freshly built static library (incremental by mtime)."""
    bdir = build_lib(flavour)
    odir = os.path.join(CACHE, "exe-%s-%s" % (flavour, repo_tag()))
    os.makedirs(odir, exist_ok=True)
    import fcntl
    lockf = open(os.path.join(odir, ".lock"), "w")
    fcntl.flock(lockf, fcntl.LOCK_EX)                    # one build of this executor at a time (released when the process ends / file is collected)
    lib = os.path.join(bdir, "src", "libcellml.a")
    if not os.path.exists(lib):
        raise Broken("no static library at " + lib)
    hdir = os.path.join(VERIF, "harness")
    srcs = sorted(f for f in os.listdir(hdir) if f.endswith(".cpp"))
    hdrs = [os.path.join(hdir, f) for f in os.listdir(hdir) if f.endswith(".h")]
    newest_hdr = max([os.path.getmtime(h) for h in hdrs] + [0])
    if flavour == "asan":
        cxx, flags = "clang++", "-O1 -g -fno-omit-frame-pointer -fsanitize=address,undefined -fno-sanitize-recover=undefined"
    else:
        cxx, flags = "g++", "-O1 -g0"
    inc = "-I%s/src/api -I%s/src/api/libcellml/module -I%s/src/api -I%s/src -I/root/miniconda/include/libxml2 -I/root/miniconda/include" % (REPO, REPO, bdir, REPO)
    jobs = []
    objs = []
    for s in srcs:
        src = os.path.join(hdir, s)
        obj = os.path.join(odir, s[:-4] + ".o")
        objs.append(obj)
        if (not os.path.exists(obj)) or os.path.getmtime(obj) < max(os.path.getmtime(src), newest_hdr, os.path.getmtime(os.path.join(bdir, "src", "api", "libcellml", "exportdefinitions.h"))):
            jobs.append("%s -std=c++17 %s -DLIBCELLML_VERIF %s -c %s -o %s" % (cxx, flags, inc, src, obj))
    with cf.ThreadPoolExecutor(NCPU) as ex:
        for p in ex.map(lambda c: sh(c, timeout=900), jobs):
            if p.returncode != 0:
                raise Broken("harness compile failed:\n" + p.stdout[-4000:])
    exe = os.path.join(odir, "executor")
    need = (not os.path.exists(exe)) or jobs or os.path.getmtime(exe) < os.path.getmtime(lib)
    final_exe = exe
    if need:
        exe = "%s.tmp.%d" % (final_exe, os.getpid())     # linked aside and renamed: a check running next to this one may be starting the old one
        # the library comes first and whole: where the harness and the library instantiate the same templates (std::regex, ...) the
        # linker keeps the first definition, and the library's own code must be what runs (a harness-side std::regex instantiation
        # with smaller stack frames hid a stack exhaustion in the printer)
        p = sh("%s %s -o %s -Wl,--whole-archive %s -Wl,--no-whole-archive %s -L/root/miniconda/lib -lxml2 -lz -Wl,-rpath,/root/miniconda/lib -lpthread" % (cxx, flags, exe, lib, " ".join(objs)), timeout=600)
        if p.returncode != 0:
            raise Broken("harness link failed:\n" + p.stdout[-4000:])
        os.replace(exe, final_exe)
    return final_exe


# --------------------------------------------------------------------------- known findings
def known_findings(prop):
    """Lines 'finding: property=<id> dev=<Name> <what>' of KNOWN_FINDINGS.txt -> {Name: what}. Never written here."""
    out = {}
    path = os.path.join(VERIF, "KNOWN_FINDINGS.txt")
    if os.path.exists(path):
        for line in open(path):
            m = re.match(r"finding:\s+property=(\S+)\s+dev=(\S+)\s+(.*)", line.strip())
            if m and m.group(1) == prop:
                out[m.group(2)] = m.group(3)
    return out


# --------------------------------------------------------------------------- TLC
class TlcResult:
    def __init__(self, rc, out):
        self.rc = rc
        self.out = out
        m = re.findall(r"(\d+) states generated, (\d+) distinct states found", out)
        self.generated = int(m[-1][0]) if m else 0
        self.distinct = int(m[-1][1]) if m else 0
        m = re.search(r"The depth of the complete state graph search is (\d+)", out)
        self.depth = int(m.group(1)) if m else 0
        self.verdicts = []
        for m in re.finditer(r'^"VERDICT\|(\w+)\|(\d+)\|(-?\d+)\|(.*)"\s*$', out, re.M):
            self.verdicts.append((m.group(1), int(m.group(2)), int(m.group(3)), m.group(4).replace('\\"', '"')))
        # (simulation mode, tlc -simulate num=N, ends with its own summary)
        self.ok = rc == 0 and ("Model checking completed. No error has been found" in out or ("The number of states generated" in out and "Simulation using seed" in out and "violated" not in out))
        self.violation = "is violated" in out or "Invariant" in out and "violated" in out
        self.error = rc != 0 and not self.violation


def tlc(workdir, module_dir, module, cfg, env=None, workers=1, timeout=1800, extra=None, heap="4g", deviations=None, dfs=False, scen_out=None):
    """Run TLC on module_dir/module.tla with module_dir/cfg. Output and metadir under workdir.
    Lines <<"SCN", "<json>">> printed by the spec (TraceIO!EmitScenario) are collected into scen_out."""
    os.makedirs(workdir, exist_ok=True)
    tag = "%s-%d-%d" % (os.path.splitext(cfg)[0], os.getpid(), int(time.time() * 1000) % 100000)
    meta = os.path.join(workdir, "meta-" + tag)
    shutil.rmtree(meta, ignore_errors=True)
    libpath = [os.path.join(SPECS, "lib"), module_dir, workdir]
    for d in sorted(os.listdir(SPECS)):
        p = os.path.join(SPECS, d)
        if os.path.isdir(p) and p not in libpath:
            libpath.append(p)
    if deviations is not None:
        with open(os.path.join(workdir, "KnownFindings.tla"), "w") as f:
            f.write("---- MODULE KnownFindings ----\nKnownDeviations == {%s}\n====\n" % ", ".join('"%s"' % d for d in sorted(deviations)))
    cmd = ["java", "-XX:+UseParallelGC", "-Xmx" + heap, "-DTLA-Library=" + ":".join(libpath)]
    if dfs:
        cmd.append("-Dtlc2.tool.queue.IStateQueue=StateDeque")
    cmd += ["-cp", TLA_JAR, "tlc2.TLC", "-noGenerateSpecTE", "-workers", str(workers), "-metadir", meta, "-config", os.path.join(module_dir, cfg)]
    if extra:
        cmd += extra
    cmd.append(os.path.join(module_dir, module))
    t0 = time.time()
    outpath = os.path.join(workdir, "tlc-%s.out" % tag)
    e = dict(os.environ)
    if env:
        e.update(env)
    with open(outpath, "w") as of:
        try:
            p = subprocess.run(cmd, stdout=of, stderr=subprocess.STDOUT, timeout=timeout, env=e, cwd=workdir)
        except subprocess.TimeoutExpired as ex:
            shutil.rmtree(meta, ignore_errors=True)
            raise Broken("TLC timeout after %ss: %s %s" % (timeout, module, cfg)) from ex
    shutil.rmtree(meta, ignore_errors=True)
    keep = []
    size = 0
    sf = open(scen_out, "a") if scen_out else None
    with open(outpath, errors="replace") as f:
        for line in f:
            if line.startswith('<<"SCN", "'):
                if sf:
                    sf.write(line[10:].rstrip()[:-3].replace('\\"', '"').replace("\\\\", "\\") + "\n")
                continue
            keep.append(line)
            size += len(line)
            if size > 400000:
                keep = keep[len(keep) // 2:]
                size = sum(len(x) for x in keep)
    if sf:
        sf.close()
    os.remove(outpath)
    r = TlcResult(p.returncode, "".join(keep))
    r.wall = time.time() - t0
    return r


def tlc_must_pass(r, what):
    if not r.ok:
        raise Broken("%s failed (rc=%d):\n%s" % (what, r.rc, r.out[-4000:]))
    return r


# --------------------------------------------------------------------------- executor
def count_lines(path):
    n = 0
    with open(path, "rb") as f:
        for _ in f:
            n += 1
    return n


def run_executor(exe, driver, scen, trace, shards=NCPU, timeout_s=60, wall=3000, isolate=False):
    """Run the executor over scen (ndjson) in parallel shards; concatenated trace in scenario order."""
    lines = open(scen).read().splitlines()
    lines = [l for l in lines if l.strip()]
    shards = max(1, min(shards, len(lines)))
    parts = []
    # scenarios are numbered in the order of the file and dealt out to the shards in turn (neighbours in an enumeration cost
    # about the same: contiguous chunks left most shards idle while one or two worked through the expensive stretch)
    numbered = []
    for sc, l in enumerate(lines, 1):
        if l.startswith("{") and '"sc":' not in l[:12]:
            l = '{"sc":%d,' % sc + l[1:]
        numbered.append(l)
    sc = len(lines)
    for k in range(shards):
        chunk = numbered[k::shards]
        if not chunk:
            continue
        sp = "%s.part%d" % (scen, k)
        with open(sp, "w") as f:
            for l in chunk:
                f.write(l + "\n")
        parts.append((sp, "%s.part%d" % (trace, k)))

    # the sanitizer build has much larger stack frames: recursion that fits comfortably in the default 8 MB stack of a
    # release build (e.g. the 6500-operand sum that fills 64 KiB) would be reported as a stack overflow - give it 1 GiB
    prefix = ["prlimit", "--stack=1073741824:1073741824"] if "exe-asan" in exe else []

    def one(pt):
        return sh(prefix + [exe, driver, pt[0], pt[1], "--timeout", str(timeout_s), "--isolate", "1" if isolate else "0"], timeout=wall,
                  env={"ASAN_OPTIONS": "detect_leaks=0:abort_on_error=0:exitcode=66", "UBSAN_OPTIONS": "print_stacktrace=1:halt_on_error=1:exitcode=67"})
    with cf.ThreadPoolExecutor(len(parts)) as ex:
        res = list(ex.map(one, parts))
    for p in res:
        if p.returncode != 0:
            raise Broken("executor failed: " + p.stdout[-2000:])
    with open(trace, "w") as out:
        for sp, tp in parts:
            with open(tp) as f:
                shutil.copyfileobj(f, out)
            os.remove(tp)
            if os.path.exists(tp + ".stderr"):
                with open(trace + ".stderr", "a") as e, open(tp + ".stderr") as f:
                    shutil.copyfileobj(f, e)
                os.remove(tp + ".stderr")
    # numbered scenario file (what the replay path points at)
    with open(scen + ".numbered", "w") as out:
        for l in numbered:
            out.write(l + "\n")
    for sp, tp in parts:
        os.remove(sp)
    return sc


def suite_scenarios(scen):
    """One scenario per test of the repository's own gtest suite (built with the hooks on): {"bin":..., "test":...}."""
    bdir = build_lib("tests")
    tdir = os.path.join(bdir, "tests")
    n = 0
    with open(scen, "w") as out:
        for b in sorted(os.listdir(tdir)):
            e = os.path.join(tdir, b)
            if not (b.startswith("test_") and os.path.isfile(e) and os.access(e, os.X_OK)) or b.startswith("test_api_headers"):
                continue
            p = sh([e, "--gtest_list_tests"], timeout=120, cwd=tdir)
            suite = None
            for line in p.stdout.splitlines():
                if line and not line.startswith(" ") and line.rstrip().endswith("."):
                    suite = line.strip()
                elif suite and line.startswith("  "):
                    out.write(json.dumps({"bin": b, "test": suite + line.split("#")[0].strip()}, separators=(",", ":")) + "\n")
                    n += 1
    if n < 100:
        raise Broken("the hook-enabled test suite lists only %d tests" % n)
    return scen


def run_suite(scen, trace, timeout_s=600):
    """Run each listed test of the repository's suite in its own process with the logger hook writing to a file;
    the trace is, per test, a Reset line followed by the hook's events (labelled with the scenario number, nothing else added)."""
    tdir = os.path.join(build_lib("tests"), "tests")
    lines = [l for l in open(scen).read().splitlines() if l.strip()]
    numbered = []
    for k, l in enumerate(lines, 1):
        if '"sc":' not in l[:12]:
            l = '{"sc":%d,' % k + l[1:]
        numbered.append(l)
    wd = trace + ".d"
    shutil.rmtree(wd, ignore_errors=True)
    os.makedirs(wd)

    def one(l):
        s = json.loads(l)
        base = os.path.join(wd, "t%d" % s["sc"])
        try:
            p = subprocess.run([os.path.join(tdir, s["bin"]), "--gtest_filter=" + s["test"]], cwd=tdir, stdout=subprocess.DEVNULL, stderr=subprocess.DEVNULL,
                               timeout=timeout_s, env=dict(os.environ, LIBCELLML_VERIF_LOGGER_TRACE=base))
            rc = p.returncode
        except subprocess.TimeoutExpired:
            rc = -99
        evs = []
        for f in sorted(os.listdir(wd)):
            if f.startswith("t%d." % s["sc"]):
                with open(os.path.join(wd, f)) as fh:
                    evs += [x for x in fh.read().splitlines() if x.startswith("{")]
        return s["sc"], rc, evs
    with cf.ThreadPoolExecutor(NCPU) as ex:
        res = list(ex.map(one, numbered))
    with open(trace, "w") as out:
        for sc, rc, evs in res:
            out.write('{"e":"Reset","sc":%d}\n' % sc)
            for e in evs:
                out.write('{"sc":%d,' % sc + e[1:] + "\n")
    with open(scen + ".numbered", "w") as out:
        out.write("\n".join(numbered) + "\n")
    shutil.rmtree(wd, ignore_errors=True)
    return len(numbered)


def split_trace(trace, nshards, max_events=50000):
    """Cut a trace into shards at Reset lines (scenarios never straddle a shard)."""
    total = count_lines(trace)
    if total == 0:
        return []
    per = min(max_events, max(1, (total + nshards - 1) // nshards))
    paths = []
    out = None
    n = 0
    with open(trace) as f:
        for line in f:
            if out is None or (n >= per and line.startswith('{"e":"Reset"')):
                if out:
                    out.close()
                paths.append("%s.shard%d" % (trace, len(paths)))
                out = open(paths[-1], "w")
                n = 0
            out.write(line)
            n += 1
    if out:
        out.close()
    return paths


def validate_trace(workdir, module_dir, module, cfg, trace, deviations, parallel=8, timeout=1800, heap="3g", dfs=False):
    """Trace validation by TLC. Returns (events, verdicts[(kind,line,sc,what)], rejected[(shard, depth)])."""
    shards = split_trace(trace, parallel)
    verdicts = []
    rejected = []
    events = 0

    def one(sp):
        return sp, tlc(workdir + "/tv-" + os.path.basename(sp), module_dir, module, cfg, env={"TRACE": sp}, workers=1, timeout=timeout, heap=heap,
                       deviations=deviations, dfs=dfs)
    with cf.ThreadPoolExecutor(parallel) as ex:
        for sp, r in ex.map(one, shards):
            n = count_lines(sp)
            events += n
            verdicts += [(k, l, sc, w, sp) for (k, l, sc, w) in r.verdicts]
            if not r.ok:
                m = re.search(r'<<"DEPTH", (\d+)>>', r.out)
                if r.error and not m:
                    raise Broken("trace validation could not run on %s:\n%s" % (sp, r.out[-3000:]))
                depth = int(m.group(1)) if m else r.depth
                rejected.append((sp, depth, r.out[-1500:]))
            else:
                os.remove(sp)
            shutil.rmtree(workdir + "/tv-" + os.path.basename(sp), ignore_errors=True)
    return events, verdicts, rejected


# --------------------------------------------------------------------------- evidence / verdict
def write_evidence(prop, tier, seed, level, coverage, wall, violations, assumptions):
    os.makedirs(os.path.join(VERIF, "evidence"), exist_ok=True)
    ev = {"property_id": prop, "tier": tier, "seed": seed, "level": level, "coverage": coverage,
          "assumptions": assumptions, "wall_s": round(wall, 1), "violations": violations}
    with open(os.path.join(VERIF, "evidence", prop + ".json"), "w") as f:
        json.dump(ev, f, indent=1)


def scenario_of(scen_numbered, sc):
    """Return the scenario line with the given id."""
    if not os.path.exists(scen_numbered):
        return None
    with open(scen_numbered) as f:
        for line in f:
            if line.startswith('{"sc":%d,' % sc):
                return line
    return None
