"""C03 - generated code computes what the model's equations say (specs/Codegen)."""
import json
import os


def batch(path, out, size):
    by_env = {}
    for line in open(path):
        s = json.loads(line)
        by_env.setdefault((s["env"], s.get("initForm", "plain")), []).append(s)
    n = 0
    with open(out, "w") as f:
        for (env, form), items in sorted(by_env.items()):
            for i in range(0, len(items), size):
                chunk = items[i:i + size]
                f.write(json.dumps({"env": env, "initForm": form, "envv": chunk[0]["envv"], "eqs": [{"tree": c["tree"], "expect": c["expect"]} for c in chunk]}, separators=(",", ":")) + "\n")
                n += 1
    return n


def run(ctx):
    trees = ctx.gen("Codegen", "Gen_Codegen.tla", "Gen_Codegen.cfg", "trees", workers=8, heap="8g")
    ctx.sample(trees, 3)
    scen = os.path.join(ctx.work, "models.scen.ndjson")
    ntrees = sum(1 for _ in open(trees))
    nmodels = batch(trees, scen, 12 if ctx.quick else 4)
    trace = ctx.execute("codegen", scen, timeout_s=120)
    ctx.validate("Codegen", "Trace_Codegen.tla", "Trace_Codegen.cfg", trace, "codegen", parallel=12)
    # system level: roles, dependency order, rates, scaling across components (seconds / milliseconds), implicit systems
    sysscen = os.path.join(ctx.work, "systems.scen.ndjson")
    open(sysscen, "w").close()
    for cfg in (["Gen_n1", "Gen_n2", "Gen_n1z", "Gen_n2z", "Gen_n1u", "Gen_n2u", "Gen_n2d"] if ctx.quick else ["Gen_n1", "Gen_n2", "Gen_n1z", "Gen_n2z", "Gen_n1u", "Gen_n2u", "Gen_n2d", "Gen_n3run", "Gen_n3runz"]):
        part = ctx.gen("System", "Gen_System.tla", cfg + ".cfg", cfg, workers=8, timeout=3000, heap="12g")
        with open(sysscen, "a") as out:
            for i, line in enumerate(open(part)):
                if ctx.quick and cfg == "Gen_n2u" and i % 3:
                    continue                      # quick: every third of the systems coupled with the implicit equation
                if cfg in ("Gen_n3run", "Gen_n3runz") and i % 6:
                    continue                      # three classes (compiled and run): every sixth system of the enumeration
                if '"kind":"none"' in line.split('"fault":')[1][:40] or '"kind":"diffOfSum"' in line.split('"fault":')[1][:60]:
                    out.write(line)
    nsys = sum(1 for _ in open(sysscen))
    strace = ctx.execute("system", sysscen, timeout_s=120, wall=3000 if ctx.quick else 12000)
    ctx.validate("System", "Trace_System.tla", "Trace_C03.cfg", strace, "system", parallel=12)
    ctx.cov["systems_compiled_and_run"] = nsys
    ctx.cov["evaluations"] = ntrees
    ctx.cov["distinct_nontrivial"] = ntrees
    ctx.cov["models_compiled_and_run"] = nmodels
    ctx.finish("model_checking",
               "579 expression trees (every parent/child/side pattern over 8 arithmetic operators, unary operators inside and outside, 6 relational and 3 logical operators incl. nesting and not, relational inside arithmetic and vice versa, "
               "11 piecewise forms, root/log with and without qualifiers, integer powers, 18 transcendental functions at their exact points, truth constants) x 4 environments of rationals; TLC computes the exact value with rational arithmetic; "
               "the trees are batched into models, analysed, generated as C and Python, compiled/run, and every value compared (1e-9 relative); plus every well-posed system of 1-2 (thorough: 3) classes over {constant, computed constant, state, algebraic} "
               "with components working in seconds / milliseconds and implicit equations: constants, computed constants, algebraic values, state initial values, rates and NLA residuals of the generated C and Python; non-trivial = (tree, environment) pairs with an exactly defined value",
               ["floating-point comparison is done by the executor against the TLC-computed rational", "transcendental functions are checked only at exact points; elsewhere only C/Python agreement would be possible"])
