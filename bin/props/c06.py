"""C06 - flattening yields an import-free model with the same meaning (specs/Flatten)."""


def run(ctx):
    scen = ctx.gen("Flatten", "Gen_Flatten.tla", "Gen_Flatten.cfg", "worlds", workers=4)
    ctx.sample(scen, 1)
    ctx.cov["samples"] = [str(s)[:1200] for s in ctx.cov["samples"]]
    trace = ctx.execute("flatten", scen, timeout_s=30)
    ctx.validate("Flatten", "Trace_Flatten.tla", "Trace_Flatten.cfg", trace, "flatten", parallel=8)
    ctx.cov["distinct_nontrivial"] = ctx.cov["traces_validated_against_impl"]
    ctx.finish("model_checking",
               "12 resolvable import worlds (single import connected to the importer, chain, imported component with two levels of encapsulated children and internal connections, units name clash importer/importee with a deep user, "
               "component name clash, the same component imported twice, diamond, chained imported units, the same units imported twice, units used only by a cn element, component needing imported units, imported encapsulated child) x strict/permissive; "
               "TLC computes the meaning of the import hierarchy (instances with variables, initial values, units reduced by UnitsAlgebra, equivalences) and compares it with the flat model's as bags, up to component/units renaming",
               ["names of non-top-level components and of units may change; top-level names, variable names, values, units meaning, hierarchy and equivalences may not", "values are compared through initial values and the units reduction, not by running generated code (C03)"])
