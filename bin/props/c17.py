"""C17 - generated code's declared structure matches the analysed model (specs/System, specs/Codegen)."""
import os
import sys

sys.path.insert(0, os.path.dirname(os.path.abspath(__file__)))
from c03 import batch


def run(ctx):
    # (1) systems: counts, info tables, signatures, clean compilation, Python loads
    sysscen = os.path.join(ctx.work, "systems.scen.ndjson")
    open(sysscen, "w").close()
    for cfg in (["Gen_n1", "Gen_n2", "Gen_n1z", "Gen_n1u", "Gen_n2u"] if ctx.quick else ["Gen_n1", "Gen_n2", "Gen_n1z", "Gen_n2z", "Gen_n1u", "Gen_n2u", "Gen_n3run", "Gen_n3runz"]):
        part = ctx.gen("System", "Gen_System.tla", cfg + ".cfg", cfg, workers=8, timeout=3000, heap="12g")
        with open(sysscen, "a") as out:
            for i, line in enumerate(open(part)):
                if ctx.quick and cfg == "Gen_n2u" and i % 2:
                    continue
                if cfg in ("Gen_n3run", "Gen_n3runz") and i % 6:
                    continue          # three classes: every sixth system of the enumeration
                out.write(line)       # faulty systems included: both code strings must be empty for non-valid models
    # models with external variables (incl. every state marked: an ODE model without states)
    for cfg in (["GenX_n1"] if ctx.quick else ["GenX_n1", "GenX_n2"]):
        part = ctx.gen("System", "Gen_Ext.tla", cfg + ".cfg", cfg, workers=8, timeout=3000, heap="12g")
        with open(sysscen, "a") as out:
            for line in open(part):
                out.write(line)
    ctx.sample(sysscen, 2)
    strace = ctx.execute("system", sysscen, timeout_s=120, wall=3000 if ctx.quick else 12000)
    ctx.validate("System", "Trace_System.tla", "Trace_C17.cfg", strace, "system", parallel=12)
    programs = ctx.cov["traces_validated_against_impl"]
    # (2) expression models: helper functions exactly when used
    trees = ctx.gen("Codegen", "Gen_Codegen.tla", "Gen_Codegen.cfg", "trees", workers=8, heap="8g")
    scen = os.path.join(ctx.work, "models.scen.ndjson")
    # a tree that uses a helper-requiring operator gets a model of its own (one environment): "exactly when used" cannot be seen
    # in a model that also uses the neighbouring operators; the other trees are batched
    import json
    HELPER_OPS = {"xor", "min", "max", "sec", "csc", "cot", "sech", "csch", "coth", "arcsec", "arccsc", "arccot", "arcsech", "arccsch", "arccoth",
                  "eq", "neq", "lt", "leq", "gt", "geq", "and", "or", "not"}
    plain = os.path.join(ctx.work, "trees.plain.ndjson")
    singles, seen = [], set()
    with open(plain, "w") as out:
        for line in open(trees):
            sc = json.loads(line)
            if HELPER_OPS & set(sc["ops"]):
                key = json.dumps(sc["tree"], sort_keys=True)
                if key not in seen and (not ctx.quick or len(set(sc["ops"])) <= 4):
                    seen.add(key)
                    singles.append(sc)
            else:
                out.write(line)
    nmodels = batch(plain, scen, 6 if ctx.quick else 2)
    with open(scen, "a") as out:
        for sc in singles:
            out.write(json.dumps({"env": sc["env"], "envv": sc["envv"], "eqs": [{"tree": sc["tree"], "expect": sc["expect"]}]}, separators=(",", ":")) + "\n")
    nmodels += len(singles)
    ctx.cov["helper_singleton_models"] = len(singles)
    trace = ctx.execute("codegen", scen, timeout_s=120)
    ctx.validate("Codegen", "Trace_Codegen.tla", "Trace_C17.cfg", trace, "codegen", parallel=12)
    ctx.cov["programs"] = (programs + nmodels) * 2
    ctx.cov["disagreements_checked"] = ctx.cov["programs"]
    ctx.cov["distinct_nontrivial"] = programs + nmodels
    ctx.finish("translation_validation",
               "every generated code unit (C interface + implementation, Python) of every well-posed or faulty system of 1-2 (thorough: 3) classes and of the expression-tree models in small batches: STATE_COUNT / VARIABLE_COUNT, the i-th info entries (name, units, component, type) against the analyser variable with index i, "
               "buffer sizes, declared = defined functions, helper functions exactly for the operators used (xor, min, max, sec, sech, asec, asech; Python comparison / logical helpers), compilation with -Wall -Wextra without diagnostics other than unused-*, Python import; empty code for non-valid models",
               ["function signatures are matched textually between interface and implementation", "programs = code units checked (C and Python counted separately)"])
