"""C11 - clone() is a faithful independent deep copy (specs/Entity)."""


def run(ctx):
    scen = ctx.gen("Entity", "Gen_Entity.tla", "Gen_clone.cfg" if ctx.quick else "Gen_clone_thorough.cfg", "clone", workers=8, timeout=6000, heap="16g")
    ctx.sample(scen, 3)
    trace = ctx.execute("clone", scen)
    ctx.validate("Entity", "Trace_Entity.tla", "Trace_Entity.cfg", trace, "clone", parallel=12)
    ctx.cov["distinct_nontrivial"] = ctx.cov["traces_validated_against_impl"]
    ctx.finish("model_checking",
               "abstract models over the feature space (quick: single features and selected pairs; thorough: all pairs of features; incl. a nested structural twin) x every single mutation Entity!Mutations generates (every covered attribute of model, units, unit children, "
               "components, variables, resets, import sources; children added/removed; child order reversed; equivalences added/removed)"
               + ("; equals() logged in both directions at every enclosing level" if "c11" == "c10" else "; every entity cloned, content/equality/parent checked, then one side mutated"),
               ["TLC decides from the logged equals()/content observations and the abstract model it generated"])
