"""C02 - print -> parse preserves content (specs/lib/CellMLAbstract, specs/Document)."""


def run(ctx):
    scen = ctx.gen("Document", "Gen_Document.tla", "Gen_singles.cfg" if ctx.quick else "Gen_triples.cfg", "models", workers=4, timeout=2400, heap="12g")
    ctx.sample(scen, 2)
    trace = ctx.execute("document", scen)
    ctx.validate("Document", "Trace_Document.tla", "Trace_Document.cfg", trace, "document", parallel=12)
    ctx.cov["distinct_nontrivial"] = ctx.cov["traces_validated_against_impl"]
    ctx.finish("model_checking",
               "abstract models ModelOf(fv) over the feature space (unit prefix/exponent/multiplier, encapsulation depth, 0-3 map_variables with/without mapping and connection ids, "
               "second connection, resets with/without order and ids, imported units/components from one or two sources, ids everywhere) x string class {plain,&,<,>,\",',e-acute,mixed} at 19 string sites; "
               "%s; each model is built through the API, printed, strict-parsed, dumped by an independent traversal and compared by TLC with ModelOf(fv)" % ("every single feature value" if ctx.quick else "every pair of feature values"),
               ["TLC compares the logged content records with the abstract model it generated", "math compared after whitespace normalisation"])
