"""C05 - analysis classifies every model and variable correctly and consistently (specs/System)."""
import os


def run(ctx):
    scen = os.path.join(ctx.work, "systems.scen.ndjson")
    open(scen, "w").close()
    for cfg in (["Gen_n1", "Gen_n2", "Gen_n1z", "Gen_n2z", "Gen_n1u", "Gen_n2u"] if ctx.quick else ["Gen_n1", "Gen_n2", "Gen_n1z", "Gen_n2z", "Gen_n1u", "Gen_n2u", "Gen_n3", "Gen_n3z"]):
        part = ctx.gen("System", "Gen_System.tla", cfg + ".cfg", cfg, workers=8, timeout=3000, heap="12g")
        with open(scen, "a") as out:
            for i, line in enumerate(open(part)):
                if ctx.quick and cfg == "Gen_n2u" and i % 2:
                    continue                      # quick: every second of the systems coupled with the implicit equation
                if cfg in ("Gen_n3", "Gen_n3z") and i % 4:
                    continue                      # three classes: every fourth system of the enumeration
                out.write(line.replace('"run":true', '"run":false'))
    ctx.sample(scen, 2)
    trace = ctx.execute("system", scen, timeout_s=60, wall=3000 if ctx.quick else 12000)
    ctx.validate("System", "Trace_System.tla", "Trace_C05.cfg", trace, "system", parallel=12)
    n = ctx.cov["traces_validated_against_impl"]
    ctx.cov["evaluations"] = n * 8
    ctx.cov["distinct_nontrivial"] = n
    ctx.finish("model_checking",
               "all well-posed systems of %s classes over roles {constant, computed constant, state, algebraic} x dependency sets (<= 2 per equation, incl. the variable of integration) x home components (seconds / milliseconds), "
               "optionally with implicit equations (one unknown, two unknowns, with an initial guess); each analysed in 8 orderings / renamings / placements (equations, variables, components reversed; two renamings; x1 and x2 exchanging names in B; initial values on the reading component's copy); "
               "TLC compares model type and variable types with the ground truth, checks the AnalyserModel structure (classes once, dense indices, computing equations, dependencies, ordering) and invariance of types and of the per-class signature (equation types, state / rate dependence, dependencies) across the 8 variants" % ("1-2" if ctx.quick else "1-3"),
               ["ground truth exists by construction only", "equations are sums k + deps; richer expressions are C03's"])
