"""C09 - ownership invariants over API histories, bad arguments (specs/ObjectModel)."""

PROJ_QUICK = ["MC_Aq", "MC_Bq", "MC_C", "MC_D"]
PROJ_THOROUGH = ["MC_A", "MC_B", "MC_C", "MC_D"]
BAD = ["MC_Abad", "MC_Bbad", "MC_Cbad", "MC_Dbad"]


def run(ctx):
    tolerant = "Trace_ObjectModel_tolerant.cfg"
    strict = "Trace_ObjectModel.cfg"
    for cfg in (PROJ_QUICK if ctx.quick else PROJ_THOROUGH) + BAD:
        # one TLC pass: exhaustive check of the reference (invariants, bad-argument frame property) over the
        # projection of the universe AND one scenario per edge of its reachable graph
        scen = ctx.gen("ObjectModel", "MC_ObjectModel.tla", cfg + ".cfg", cfg, workers=8, timeout=2400, heap="16g")
        ctx.sample(scen, 1)
        trace = ctx.execute("objmodel", scen)
        ev, verdicts, rejected = ctx.validate("ObjectModel", "Trace_ObjectModel.tla", strict, trace, "objmodel", parallel=14, heap="4g")
    # Model::clean() and every other command over universes with nameless components / units (what clean() removes)
    for cfg in (["MC_F2"] if ctx.quick else ["MC_F1", "MC_F2"]):
        scen = ctx.gen("ObjectModel", "MC_ObjectModel.tla", cfg + ".cfg", cfg, workers=8, timeout=2400, heap="16g")
        ctx.sample(scen, 1)
        trace = ctx.execute("objmodel", scen)
        ctx.validate("ObjectModel", "Trace_ObjectModel.tla", "Trace_ObjectModel_nameless.cfg", trace, "objmodel", parallel=14, heap="4g")
    # random walks over the full universe (TLC simulation of the reference, 30 commands each, bad arguments included): depth that the
    # BFS-shortest histories above do not reach
    walks = ctx.gen("ObjectModel", "MC_ObjectModel.tla", "MC_walk.cfg", "walks", workers=4, timeout=2400, heap="8g", env={"WALK": "1"},
                    extra=["-simulate", "num=%d" % (100 if ctx.quick else 1500), "-depth", "31", "-seed", str(ctx.seed)], count_states=False)
    ctx.sample(walks, 1)
    wktrace = ctx.execute("objmodel", walks)
    ctx.validate("ObjectModel", "Trace_ObjectModel.tla", strict, wktrace, "objmodel", parallel=14, heap="4g")
    # mechanism level: equivalence lists with dead entries over four variables (histories the abstract state graph cannot distinguish)
    wide = ctx.gen("ObjectModel", "MC_EquivList.tla", ("MC_Eq" if ctx.quick else "MC_E") + ".cfg", "equivlist", workers=8, timeout=2400, heap="12g")
    ctx.sample(wide, 1)
    wtrace = ctx.execute("objmodel", wide)
    ctx.validate("ObjectModel", "Trace_ObjectModel.tla", "Trace_ObjectModel_wide.cfg", wtrace, "objmodel", parallel=14, heap="4g")
    # second sentence of the property: the services' methods that take an entity, an index or a name, with every kind of bad value
    bad = ctx.gen("BadArgs", "Gen_BadArgs.tla", "Gen_BadArgs.cfg", "badargs", workers=2)
    ctx.sample(bad, 2)
    btrace = ctx.execute("badargs", bad, flavour="hooks" if ctx.quick else "asan", timeout_s=60)
    ctx.validate("BadArgs", "Trace_BadArgs.tla", "Trace_BadArgs.cfg", btrace, "badargs", flavour="hooks" if ctx.quick else "asan", parallel=4)
    ctx.cov["distinct_nontrivial"] = ctx.cov["traces_validated_against_impl"]
    ctx.finish("model_checking",
               "every edge (state, command) of the reachable graph of the ObjectModel reference over projections of the universe "
               "{2 models, 3 components, 3 variables, 3 units, 2 resets; look-alike names}, each replayed on the real library from a fresh universe "
               "after the BFS-shortest history of its source state; plus every command of the alphabet with null / one-past-the-end / unknown-name "
               "arguments in every state at depth <= 2; plus MC_F1 / MC_F2: the same over universes with nameless components and units and the command Model::clean(); plus random walks of 30 commands over the full universe (tlc -simulate, seeded; quick 400, thorough 6000 walks); plus MC_EquivList: the equivalence lists of four parentless variables with their dead entries (model-checked to expose ObjectModel's symmetric relation), "
               "one scenario per (state with a dead entry, command); plus the BadArgs table: 77 methods of importer, annotator, analyser, external variables, analyser-model queries, validator, printer, generator, parser "
               "x {null, never added to a model, owner destroyed, one past the end, unknown name / key / id, entity of another model} (98 calls): outcome class, unchanged models and service state, service still working afterwards "
               "(thorough: ASan + UBSan build); non-trivial = each scenario is a distinct (state, command) pair",
               ["TLC validates every logged step against ObjectModel!Apply and evaluates OwnershipInv in every observed state",
                "projection through public getters (harness/drv_objmodel.cpp); structural look-alike is approximated by 'same name' in the non-child branch",
                "BadArgs: two rows are 'accepted' because the repository's tests pin them (Importer::replaceModel(nullptr, key), Annotator::assignId of a foreign import source)"])
