"""C07 - import resolution terminates, succeeds exactly when possible, reports failures (specs/Importer)."""


def run(ctx):
    scen = ctx.gen("Importer", "Gen_Importer.tla", "Gen_Importer.cfg" if ctx.quick else "Gen_Importer_double.cfg", "worlds", workers=8, timeout=3000, heap="12g")
    ctx.sample(scen, 2)
    ctx.cov["samples"] = [{"world": s.get("world"), "fault": s.get("fault"), "strict": s.get("strict")} for s in ctx.cov["samples"] if isinstance(s, dict)]
    trace = ctx.execute("importer", scen, timeout_s=30)
    ctx.validate("Importer", "Trace_Importer.tla", "Trace_Importer.cfg", trace, "importer", parallel=8)
    ctx.cov["distinct_nontrivial"] = ctx.cov["traces_validated_against_impl"]
    ctx.finish("model_checking",
               "(thorough: single faults and every pair of file-status / removed-entity faults) 12 resolvable import worlds on up to 3 files + root (units/component chains of depth 1-3, component needing imported units, component with an imported encapsulated child, units referencing imported units, diamond, repeated imports) "
               "x every single fault (file missing / empty / '<' / truncated / text / foreign XML, referenced entity removed, every back edge that closes a cycle, a cycle of ordinary units inside an imported file) x {strict, permissive}, "
               "each followed by repair + removeAllModels + fresh resolution; TLC computes satisfiability as a least fixpoint and compares",
               ["files are materialised in a scratch directory by the executor", "for a local unit cycle only termination and absence of crashes are claimed", "a hang is a Hang event (30 s alarm), never accepted"])
