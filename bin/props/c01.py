"""C01 - no input can crash, hang or corrupt the processing pipeline (specs/Pipeline: HostileDoc, Pipeline, Gen_Pipeline, Trace_Pipeline)."""
import os


def spread(path):
    """Deterministic re-ordering of the scenario file (by a hash of the line): scenarios that run into the stage timeout (the recorded
    finding) are generated next to each other and would otherwise all land in one shard of the executor."""
    import hashlib
    lines = [l for l in open(path) if l.strip()]
    lines.sort(key=lambda l: hashlib.md5(l.encode()).hexdigest())
    with open(path, "w") as f:
        f.writelines(lines)


def run(ctx):
    # the design: without Crash / Hang every session runs all its stages, whatever the order
    ctx.mc("Pipeline", "Pipeline.tla", "MC_Pipeline.cfg", workers=4)
    scen = ctx.gen("Pipeline", "Gen_Pipeline.tla", "Gen_quick.cfg", "singles", workers=8, heap="8g")
    spread(scen)
    ctx.sample(scen, 3)
    flavour = "hooks" if ctx.quick else "asan"
    trace = ctx.execute("pipeline", scen, flavour=flavour, timeout_s=120)
    ctx.validate("Pipeline", "Trace_Pipeline.tla", "Trace_Pipeline.cfg", trace, "pipeline", flavour=flavour, parallel=12)
    if not ctx.quick:
        pairs = ctx.gen("Pipeline", "Gen_Pipeline.tla", "Gen_pairs.cfg", "pairs", workers=8, heap="12g", timeout=3000)
        spread(pairs)
        ptrace = ctx.execute("pipeline", pairs, flavour="asan", timeout_s=120)
        ctx.validate("Pipeline", "Trace_Pipeline.tla", "Trace_Pipeline.cfg", ptrace, "pipeline", flavour="asan", parallel=12)
    n = ctx.cov["traces_validated_against_impl"]
    ctx.cov["inputs"] = n
    ctx.finish("exploration",
               "hostile documents = skeleton (valid 2.0 template, 1.0, 1.1, HTML, SVG, bare MathML, empty, declaration only, root only, random bytes, NULs, '<', the valid document cut at 6 lengths, 5000-deep XML, 5000 attributes, "
               "60 KB text, invalid UTF-8, UTF-16) + one feature (thorough: + pairs of features of different groups from a pool of representatives): 46 numeric strings x 9 numeric sites, 10 units reference graphs x 5 users + a doubling graph (every units names the next one twice; 12 and 40 levels), "
               "~110 MathML snippets x 6 placements, ~150 structural features (encapsulation, connections, imports, resets, names, interfaces, namespaces, prolog / DOCTYPE / entities, trailing content); x {strict, permissive} x stage orders. "
               "Every document goes through parse and then validate, print, queries (hasImports / isDefined / units relations / equivalences), clone, repair (fixVariableInterfaces, linkUnits, clean), annotate, resolveImports, flattenModel, "
               "analyseModel, C and Python generation, print again; TLC steps the session state machine with every Call / Return and reports a crash, an uncaught exception, a timeout (120 s), "
               + ("" if ctx.quick else "an AddressSanitizer / UBSan report, ") + "an incoherent issue list, an incomplete session or a changed printed form; non-trivial = sessions whose model was analysed as valid (generator reached with real equations)",
               ["the quantifier 'all byte strings up to 64 KiB' is covered by the structured feature space only", "quick runs without sanitizers; thorough runs the ASan + UBSan build of library and executor",
                "memory errors are observed on the enumerated inputs, not excluded in general"])
