"""C12 - purity: results depend only on arguments and documented instance state (specs/Services)."""
import json
import os


def run(ctx):
    scen = ctx.gen("Services", "Services.tla", "Gen_C12.cfg" if ctx.quick else "Gen_C12_thorough.cfg", "svc", workers=4, timeout=2400)
    # longer histories over the analyser alone: two models that share a units name (a reused analyser must not remember the first)
    scen2 = ctx.gen("Services", "Services.tla", "Gen_C12_analyser.cfg", "svcan", workers=4, timeout=2400)
    with open(scen, "a") as out:
        for line in open(scen2):
            out.write(line)
    # hand-picked histories: a Generator that outlives an edit and re-analysis of its model
    scen3 = ctx.gen("Services", "Services.tla", "Gen_C12_generator.cfg", "svcgen", workers=1, timeout=600)
    with open(scen, "a") as out:
        for line in open(scen3):
            out.write(line)
    # importer-centred histories: parse, resolve, then three calls among resolve / flatten / validate / print (imported models are inputs too)
    scen4 = ctx.gen("Services", "Services.tla", "Gen_C12_importer.cfg", "svcimp", workers=1, timeout=600)
    with open(scen, "a") as out:
        for line in open(scen4):
            out.write(line)
    ctx.sample(scen, 3)
    trace = ctx.execute("services", scen, wall=3000 if ctx.quick else 12000)      # one fresh process per call sequence
    # (1) per shard: inputs unchanged, results functional within the shard
    ctx.validate("Services", "Trace_Services.tla", "Trace_C12.cfg", trace, "services", parallel=12)
    # (2) across the whole corpus: one TLC run over the distinct (key, result) observations
    pairs = os.path.join(ctx.work, "pairs.trace.ndjson")
    seen = set()
    n = 0
    with open(trace) as f, open(pairs, "w") as out:
        out.write('{"e":"Reset","sc":0,"i":1}\n')
        for line in f:
            if '"e":"svc"' not in line[:20]:
                continue
            ev = json.loads(line)
            k = (ev["key"], ev["res"], ev["kbBefore"])
            if k in seen:
                continue
            seen.add(k)
            n += 1
            out.write(json.dumps({"e": "svc", "sc": ev["sc"], "i": ev["i"], "c": ev["c"], "key": ev["key"], "res": ev["res"], "fail": ev["fail"],
                                  "inBefore": ev["inBefore"], "inAfter": ev["inAfter"], "kbBefore": ev["kbBefore"], "kbAfter": ev["kbAfter"]}, separators=(",", ":")) + "\n")
    open(scen + ".numbered.bak", "w").close()
    os.replace(os.path.join(ctx.work, "svc.scen.ndjson.numbered"), os.path.join(ctx.work, "pairs.scen.ndjson.numbered"))
    ctx.validate("Services", "Trace_Services.tla", "Trace_C12.cfg", pairs, "services", parallel=1, heap="6g")
    ctx.cov["distinct_observations"] = n
    ctx.cov["distinct_nontrivial"] = n
    ctx.finish("model_checking",
               "every sequence of %d service calls (parse strict/permissive, validate, analyse, generate C/Python, print plain/auto-ids, resolve, flatten; fresh and reused instances) over %d pool documents, "
               "each sequence in a fresh process; the result digest (canonical model dump + exact math strings + issue list) of each call must be a function of (operation, argument digests, documented instance state) "
               "over the whole corpus, and every input model digest (the model and the models linked to its import sources) must be unchanged; non-trivial = distinct (key, result) observations" % ((3, 7) if ctx.quick else (4, 4)),
               ["digests are FNV-1a of canonical dumps made with public getters", "the corpus-wide functional check is one TLC run over the de-duplicated observations"])
