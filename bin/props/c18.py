"""C18 - variable-equivalence queries agree with the connection graph (specs/EquivCache)."""
import json
import os

import vlib


def run(ctx):
    fam = os.path.join(vlib.SPECS, "EquivCache", "collisions.json")
    scen = ctx.gen("EquivCache", "MC_EquivCache.tla", "MC_quick.cfg" if ctx.quick else "MC_thorough.cfg", "graphs", workers=4, env={"COLLISIONS": fam}, timeout=2400)
    if not ctx.quick:   # all graphs on five variables, one query each (with and without a shared component)
        deep = ctx.gen("EquivCache", "MC_EquivCache.tla", "MC_deep.cfg", "graphs5", workers=8, env={"COLLISIONS": fam}, timeout=3000, heap="12g")
        with open(scen, "a") as f:
            for line in open(deep):
                f.write(line)
    # the committed colliding family (constructed from the specification's key formula, re-verified by TLC in the run above
    # and again on the trace): four real Variable objects at those addresses, a-b equivalent, c-d not, both query orders
    with open(scen, "a") as f:
        for q in json.load(open(fam)):
            for queries in ([["am", 0, 1], ["am", 2, 3]], [["am", 2, 3], ["am", 0, 1]], [["am", 0, 1], ["am", 3, 2], ["am", 1, 0], ["am", 2, 3]],
                            [["am", 0, 0], ["am", 0, 2], ["am", 1, 3]], [["am", 0, 3], ["am", 1, 2], ["am", 0, 1]], [["am", 1, 2], ["am", 0, 3], ["am", 2, 3]]):
                f.write(json.dumps({"kind": "collision", "fam": q["fam"], "n": 4, "addr": q["addr"], "limbs": q["limbs"], "edges": [[0, 1]], "queries": queries}, separators=(",", ":")) + "\n")
                f.write(json.dumps({"kind": "collision", "fam": q["fam"], "n": 4, "addr": q["addr"], "limbs": q["limbs"], "edges": [[2, 3]], "queries": queries}, separators=(",", ":")) + "\n")
    ctx.sample(scen, 3)
    trace = ctx.execute("equivcache", scen)
    ctx.validate("EquivCache", "Trace_EquivCache.tla", "Trace_EquivCache.cfg", trace, "equivcache", parallel=8)
    ctx.cov["distinct_nontrivial"] = ctx.cov["traces_validated_against_impl"]
    ctx.finish("model_checking",
               "all connection graphs on %d variables (thorough: also all graphs on 5 variables), each also with the first and last variable sharing a component, x all sequences of 2 areEquivalentVariables queries (each repeated as hasEquivalentVariable(v, true)) on real objects, answers compared by TLC with reachability; "
               "plus 6 address quadruples that collide under the modelled 64-bit Cantor key (verified by TLC on 8-bit limbs) and 7 quadruples related by equal low 32/16 bits, equal sum, equal xor, equal high half or a page shift, with real Variable objects placed at those addresses by the executor's allocator, six query orders" % (3 if ctx.quick else 4),
               ["addresses are chosen through the executor's operator new (no hook in the library needed)", "the collision family is constructed from the specification's formula by bin/mk-collisions and committed"])
