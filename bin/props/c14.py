"""C14 - CellML 1.0/1.1 documents are faithfully transformed in permissive mode (specs/Legacy)."""


def run(ctx):
    scen = ctx.gen("Legacy", "Gen_Legacy.tla", "Gen_quick.cfg" if ctx.quick else "Gen_thorough.cfg", "legacy", workers=4, timeout=2400, heap="12g")
    ctx.sample(scen, 2)
    trace = ctx.execute("legacy", scen)
    ctx.validate("Legacy", "Trace_Legacy.tla", "Trace_Legacy.cfg", trace, "legacy", parallel=12)
    ctx.cov["distinct_nontrivial"] = ctx.cov["traces_validated_against_impl"]
    ctx.finish("model_checking",
               "abstract 2.0 models over the feature space (units, encapsulation depth, connections, imports, ids, special characters) rewritten mechanically to CellML 1.0 and 1.1 "
               "x syntax variants (liter/meter spelling, cellml prefix declared on the root or on the math element, math before or after the variables, interface attributes minimal / explicit none / private first, "
               "units declared inside a component); strict must refuse, permissive must return the content of the abstract model with nothing stronger than messages",
               ["the rewrite to 1.x text is done by the executor (harness/drv_legacy.cpp); TLC compares the transformed content with the abstract model"])
