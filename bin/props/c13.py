"""C13 - identifier assignment complete / unique / non-destructive (specs/Annotator)."""


def run(ctx):
    scen = ctx.gen("Annotator", "Gen_Annotator.tla", "Gen_quick.cfg" if ctx.quick else "Gen_thorough.cfg", "ann", workers=4, timeout=1800)
    ctx.sample(scen, 3)
    trace = ctx.execute("annotator", scen)
    ctx.validate("Annotator", "Trace_Annotator.tla", "Trace_Annotator.cfg", trace, "annotator", parallel=12)
    ctx.cov["distinct_nontrivial"] = ctx.cov["traces_validated_against_impl"]
    ctx.finish("model_checking",
               "histories setModel / edit behind the annotator's back / assign* / clearAllIds / lookup / printModel(auto ids) over two same-shaped models (26 id-carrying items of all 13 kinds + an id inside MathML) "
               "x 5 seedings (blank, some, duplicates, auto-id-shaped incl. pair ids, auto-id-shaped inside MathML); TLC checks non-destructive / complete / fresh against the ids present at the call and the annotator's lookups against the ids read from the model",
               ["ids are read back through the model's own getters; freshness, not id format, is demanded"])
