"""C15 - issue reporting coherent across services (specs/Logger, specs/Services, lib/LoggerObs)."""


import vlib


def run(ctx):
    ctx.mc("Logger", "MC_Logger.tla", "MC_Logger.cfg", workers=4)
    scen = ctx.gen("Services", "Services.tla", "Gen_C15.cfg" if ctx.quick else "Gen_C15_thorough.cfg", "svc", workers=4)
    # annotator-centred histories: lookups by identifier and index, assignments that cannot work, a destroyed model
    scen2 = ctx.gen("Services", "Services.tla", "Gen_C15_annotator.cfg", "svcann", workers=1, timeout=600)
    with open(scen, "a") as out:
        for line in open(scen2):
            out.write(line)
    ctx.sample(scen, 3)
    trace = ctx.execute("services", scen)
    ctx.validate("Services", "Trace_Services.tla", "Trace_C15.cfg", trace, "services", parallel=12)
    # every value of the ReferenceRule and element-type enumerations (issue factory hook)
    import os
    es = os.path.join(ctx.work, "enums.scen.ndjson")
    open(es, "w").write('{"sweep":"enums"}\n')
    tr = ctx.execute("enums", es, shards=1)
    ctx.validate("Services", "Trace_Services.tla", "Trace_C15.cfg", tr, "enums", parallel=1)
    # the repository's own test suite, built with the hook on: every logger operation of every test replayed on the Logger model
    ss = vlib.suite_scenarios(os.path.join(ctx.work, "suite.scen.ndjson"))
    ctx.sample(ss, 2)
    tr = ctx.execute("suite", ss)
    ctx.validate("Services", "Trace_Services.tla", "Trace_C15.cfg", tr, "suite", parallel=4)
    ctx.cov["distinct_nontrivial"] = ctx.cov["traces_validated_against_impl"]
    ctx.finish("model_checking",
               "every sequence of %d service calls (parse strict/permissive, validate, analyse, generate, print, resolve, flatten, assignIds, lookup; fresh and reused instances) "
               "over a pool of 19 documents (valid, invalid, garbage, foreign, 1.x, every import fault); each call: hook-level logger operations replayed on the Logger model, "
               "public-getter observation coherent, failing result explained; plus every test of the repository's own suite run with the hook on (one trace per test, hook-level operations only); "
               "non-trivial = distinct call sequences" % (2 if ctx.quick else 3),
               ["hook LIBCELLML_VERIF in logger.cpp reports every change of an issue list", "TLC decides every event"])
