"""C19 - model repair helpers establish what they promise (specs/Repair)."""


def run(ctx):
    scen = ctx.gen("Repair", "Gen_Repair.tla", "Gen_Repair.cfg", "repair", workers=4)
    ctx.sample(scen, 3)
    trace = ctx.execute("repair", scen)
    ctx.validate("Repair", "Trace_Repair.tla", "Trace_Repair.cfg", trace, "repair", parallel=8)
    ctx.cov["distinct_nontrivial"] = ctx.cov["traces_validated_against_impl"]
    ctx.finish("model_checking",
               "fixVariableInterfaces: every subset of 7 candidate equivalences (sibling, parent/child, grandparent/grandchild, uncle/nephew, parentless variable) over a 3-level hierarchy x 12 interface seedings "
               "(absent, public, private, public_and_private, 'none', invalid string; uniform and rotated); linkUnits: 3 variables x 7 ways of naming units (own object, string, missing, foreign object with the same / another name, standard, none); "
               "clean: 4 hierarchy shapes x 7 component kinds per node x 5 units kinds; TLC evaluates the postconditions",
               ["TLC decides from logged pre/post states; the validator cross-check counts issues mentioning interfaces or unreachable components"])
