"""C20 - external variables turn unknowns into inputs without disturbing the rest (specs/System: External, Gen_Ext)."""
import os


def run(ctx):
    scen = os.path.join(ctx.work, "ext.scen.ndjson")
    open(scen, "w").close()
    for cfg in (["GenX_n1", "GenX_n2", "GenX_n2f", "GenX_n3c"] if ctx.quick else ["GenX_n1", "GenX_n2", "GenX_n2f", "GenX_n3c", "GenX_n2z", "GenX_n2m", "GenX_n3"]):
        part = ctx.gen("System", "Gen_Ext.tla", cfg + ".cfg", cfg, workers=8, timeout=6000, heap="16g")
        with open(scen, "a") as out:
            for i, line in enumerate(open(part)):
                if cfg == "GenX_n3" and i % 4:           # three classes, two dependencies per equation: every fourth scenario of the enumeration
                    continue
                if ctx.quick and cfg in ("GenX_n2", "GenX_n3c") and i % 2:   # quick: every second
                    continue
                out.write(line)
    # systems coupled with implicit equations (classes read the unknowns, the equation reads a state or t) x marks
    for cfg in ["GenXU_n1", "GenXU_n2"]:
        part = ctx.gen("System", "Gen_ExtU.tla", cfg + ".cfg", cfg, workers=8, timeout=6000, heap="16g")
        with open(scen, "a") as out:
            for i, line in enumerate(open(part)):
                if ctx.quick and cfg == "GenXU_n2" and i % 8:     # quick: every eighth
                    continue
                out.write(line)
    ctx.sample(scen, 3)
    trace = ctx.execute("system", scen, timeout_s=120)
    ctx.validate("System", "Trace_System.tla", "Trace_C20.cfg", trace, "system", parallel=12)
    n = ctx.cov["traces_validated_against_impl"]
    ctx.cov["programs"] = n * 2
    ctx.cov["distinct_nontrivial"] = n
    ctx.finish("model_checking",
               "every well-posed system of %s classes (roles constant / computed constant / state / algebraic, seconds / milliseconds components, optional implicit equation - isolated, or coupled: read by the classes (one unknown or a pair) and reading a state or t -, optional uninitialised constant) x every admissible set of marks "
               "(a class through any of its member variables, the variable of integration, a foreign variable, the implicit unknown; declared dependencies none or one class; no ordering cycles): the model is analysed without and with the marks; "
               "TLC requires a valid model, exactly the marked classes external with one placeholder equation, unchanged type / equation for every variable not reading an external, exactly the expected messages, "
               "and - from the generated C and Python run in two steps with a callback whose values change between the steps - every value of both steps, callback use exactly when needed, and declared dependencies defined at every callback call" % ("1-2" if ctx.quick else "1-3"),
               ["in initialiseVariables a declared dependency is required to be defined only if it is a constant, a state or another external variable (computed values do not exist yet at that point)",
                "marking a state without initial value, or one unknown of a system of two implicit equations, is out of scope (no defined ground truth)"])
