"""C16 - numeric text grammar (specs/NumText)."""


def run(ctx):
    # (b) the grammar (Ref) against the transcribed recognisers (Mech) on every string of the scope
    ctx.mc("NumText", "MC_NumText.tla", "MC_NumText_quick.cfg" if ctx.quick else "MC_NumText.cfg", workers=8)
    # (c) one scenario per string, with the spec's value decomposition
    scen = ctx.gen("NumText", "MC_NumText.tla", "Gen_NumText_3.cfg" if ctx.quick else "Gen_NumText_5.cfg", "strings")
    ctx.sample(scen, 4)
    scen2 = ctx.gen("NumText", "Gen_NumStruct.tla", "Gen_NumStruct.cfg", "structured")
    ctx.sample(scen2, 3)
    for s in (scen, scen2):
        # (d) every string in every numeric position of a real document
        trace = ctx.execute("numtext", s)
        # (e) TLC decides
        ctx.validate("NumText", "Trace_NumText.tla", "Trace_NumText.cfg", trace, "numtext")
    ctx.finish("model_checking",
               "all strings of length <= %d over {0,7,+,-,.,e,E,SPACE,a} plus structured long/extreme numbers, each placed in 8 numeric positions "
               "(unit exponent, multiplier, prefix, initial_value, cn, e-notation mantissa and exponent, reset order); "
               "non-trivial = (string, position) pairs the grammar accepts (value and print/parse read-back compared)" % (3 if ctx.quick else 5),
               ["TLC evaluates the grammar; the executor's comparison of doubles (strtod of the spec-normalised digits) is trusted",
                "public getters only; attribute whitespace is not trimmed, cn content is"])
