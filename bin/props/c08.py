"""C08 - unit compatibility and scaling obey the algebra of units (specs/Units)."""
import os


def run(ctx):
    fams = ["nested", "single", "inexact", "imported"]
    scen = os.path.join(ctx.work, "families.scen.ndjson")
    open(scen, "w").close()
    for w in fams:
        # one TLC run: the laws on the integer algebra over all pairs of the family, and the family as a scenario
        r = ctx.gen("Units", "MC_Units.tla", "MC_%s.cfg" % w, "fam_" + w, workers=4)
        with open(scen, "a") as out:
            out.write(open(r).read())
    ctx.sample(scen, 1)
    ctx.cov["samples"] = [str(s)[:1500] for s in ctx.cov["samples"]]
    trace = ctx.execute("units", scen, shards=4)
    ctx.validate("Units", "Trace_Units.tla", "Trace_Units.cfg", trace, "units", parallel=4, heap="6g")
    pairs = 0
    with open(trace) as f:
        for line in f:
            if '"e":"row"' in line[:16]:
                pairs += line.count('"b":')
    ctx.cov["pairs_checked"] = pairs
    ctx.cov["distinct_nontrivial"] = pairs
    ctx.cov["evaluations"] = pairs
    ctx.finish("model_checking",
               "three families of units definitions (112 single-child units over 8 references x prefixes x exponents x multipliers; 30 nested / multi-child / permuted / user-base / undefined definitions; "
               "units with prefixes on children of exponent 2 and -1), bare standard units included; the laws are model-checked on the integer algebra and every ordered pair of every family is put to "
               "Units::compatible/equivalent/scalingFactor and, for model-level units, to the validator through two connected variables; non-trivial = ordered pairs",
               ["multipliers are powers of ten so that TLC's integer arithmetic is exact", "scale exactness is claimed only when prefixes and multipliers sit on exponent-1 children"])
