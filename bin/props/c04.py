"""C04 - the validator accepts valid models and rejects every rule violation (specs/Rules)."""


def run(ctx):
    scen = ctx.gen("Rules", "Gen_Rules.tla", "Gen_Rules.cfg", "inject", workers=4, timeout=1800, heap="8g")
    ctx.sample(scen, 3)
    ctx.cov["samples"] = [{"fv": s["fv"], "inj": s["inj"]} for s in ctx.cov["samples"] if isinstance(s, dict)] or ctx.cov["samples"]
    trace = ctx.execute("validate", scen)
    ctx.validate("Rules", "Trace_Rules.tla", "Trace_Rules.cfg", trace, "validate", parallel=12)
    ctx.cov["distinct_nontrivial"] = ctx.cov["traces_validated_against_impl"]
    ctx.finish("fault_enumeration",
               "valid-by-construction abstract models (encapsulation depth 1-3, with/without resets, imports, ids, second connection) x the injection catalogue Rules!Injections: every single-rule violation at every applicable site "
               "(model, each units and unit child, each component incl. imported and encapsulated ones, math of every local component x 17 MathML faults, each variable, each reset, equivalences: interface / reachability / units / structure, duplicate ids); "
               "each base model must validate with zero issues and each injected model must get an error citing an acceptable rule; non-trivial = distinct (model, injection) pairs",
               ["the table of acceptable reference rules per injection is part of the specification (a check may cite a sibling rule)"])
