----------------------------- MODULE Trace_Units -----------------------------
(* C08: every pair of the family, as the real Units functions answered it,     *)
(* against the integer algebra.                                                 *)
EXTENDS UnitsAlgebra, TraceIO, KnownFindings
VARIABLES l, fam, red
Init == l = 1 /\ fam = <<>> /\ red = <<>>
Cmp(x, y) == red[x].ok /\ red[y].ok /\ Total(red[x]) = Total(red[y])
FLog(x, y) == red[y].log - red[x].log
BothExact(x, y) == red[x].exact /\ red[y].exact
ColProblems(a, c) ==
    LET b == c.b IN
    (IF c.c = Cmp(a, b) THEN {} ELSE {"compatible() wrong"})
    \cup (IF c.z = ~Cmp(a, b) /\ c.pos = Cmp(a, b) THEN {} ELSE {"scalingFactor not positive exactly for compatible units"})
    \cup (IF c.i THEN {} ELSE {"factor(a,b) * factor(b,a) # 1"})
    \cup (IF Cmp(a, b) /\ BothExact(a, b) /\ ~(c.p /\ c.r = FLog(a, b)) THEN {"scalingFactor is not the ratio of the SI scales"} ELSE {})
    \cup (IF c.q = (Cmp(a, b) /\ c.p /\ c.r = 0) THEN {} ELSE {"equivalent() is not (compatible and factor 1)"})
RowProblems(ev) == UNION {ColProblems(ev.a, ev.cols[k]) : k \in DOMAIN ev.cols} \cup (IF ev.nullz THEN {} ELSE {"null units not refused"})
\* triples inside one row: factor(a,c) = factor(a,b) * factor(b,c) needs rows of b; checked through logs against row a only:
\* r(a,c) - r(a,b) must be the same for every a that is compatible with both (the logs form a potential)
VColProblems(a, c) ==
    LET b == c.b IN
    \* claimed for fully defined units only (an undefined reference is reported by the validator under another rule)
    (IF (red[a].ok /\ red[b].ok) => (c.mismatch = ~Cmp(a, b)) THEN {} ELSE {"validator verdict for connected variables differs from compatible()"})
    \* the scale mismatch that the validator mentions next to a dimension mismatch is the ratio of the two units' scales
    \* (claimed, like the factor itself, when prefixes and multipliers sit on children of exponent 1)
    \cup (IF (red[a].ok /\ red[b].ok /\ c.mismatch /\ BothExact(a, b)) => (c.hint = ToString(red[a].log - red[b].log)) THEN {} ELSE {"validator reports another scale mismatch than the units give"})
FirstBad(ev, P(_, _)) == CHOOSE k \in DOMAIN ev.cols : P(ev.a, ev.cols[k]) # {}
Next == /\ l <= Len(TraceLog) /\ l' = l + 1
        /\ LET ev == TraceLog[l] IN
           CASE ev.e = "Reset" -> UNCHANGED <<fam, red>>
             [] ev.e = "family" -> /\ fam' = ev.family
                                   /\ red' = [n \in {ev.family[i].name : i \in DOMAIN ev.family} |-> R(ev.family, n)]
             [] ev.e = "row" -> /\ UNCHANGED <<fam, red>>
                                /\ IF RowProblems(ev) = {} THEN TRUE
                                   ELSE Verdict("bad", l, ev.sc, <<RowProblems(ev), ev.a, ev.cols[FirstBad(ev, ColProblems)].b>>)
             [] ev.e = "vrow" -> /\ UNCHANGED <<fam, red>>
                                 /\ IF \A k \in DOMAIN ev.cols : VColProblems(ev.a, ev.cols[k]) = {} THEN TRUE
                                    ELSE Verdict("bad", l, ev.sc, <<VColProblems(ev.a, ev.cols[FirstBad(ev, VColProblems)]), ev.a, ev.cols[FirstBad(ev, VColProblems)].b, ev.cols[FirstBad(ev, VColProblems)].hint, red[ev.a].log - red[ev.cols[FirstBad(ev, VColProblems)].b].log>>)
             [] OTHER -> UNCHANGED <<fam, red>> /\ Verdict("bad", l, ev.sc, ev.e)
Spec == Init /\ [][Next]_<<l, fam, red>>
Accepted == LET d == TLCGet("stats").diameter IN PrintT(<<"DEPTH", d>>) /\ d - 1 = Len(TraceLog)
=============================================================================
