SPECIFICATION Spec
CONSTANT Which = "single"
INVARIANTS Laws Witnesses EmitInv
CHECK_DEADLOCK FALSE
