------------------------------ MODULE MC_Units ------------------------------
(* The laws of the units algebra on the reference definition, over all pairs   *)
(* and triples of a generated family; and the families as scenarios.           *)
EXTENDS UnitsAlgebra, TraceIO
CONSTANT Which    \* "single" | "nested" | "inexact"
Kid(r, p, e, m) == [ref |-> r, prefix |-> p, exp |-> e, mult |-> m]
KidF(r, e10) == [ref |-> r, prefix |-> "none", exp |-> 0, mult |-> 0, e10 |-> e10]      \* exponent e10 / 10
U(n, kids) == [name |-> n, kids |-> kids, imp |-> "none", lib |-> FALSE]
LibU(n, kids) == [name |-> n, kids |-> kids, imp |-> "none", lib |-> TRUE]
ImpU(n, ref) == [name |-> n, kids |-> <<>>, imp |-> ref, lib |-> FALSE]
Refs == {"second", "metre", "kilogram", "gram", "litre", "newton", "dimensionless", "ub"}
Prefixes == {"none", "kilo", "milli", "3"}
\* single-child units: prefixes / multipliers only on exponent-1 children
SingleKids == {Kid(r, p, 1, m) : r \in Refs, p \in Prefixes, m \in {0, 3, -3}} \cup {Kid(r, "none", e, 0) : r \in Refs, e \in {2, -1}}
\* prefixes / multipliers on children of other exponents: only the laws are claimed
InexactKids == {Kid(r, p, e, m) : r \in {"metre", "gram", "litre"}, p \in {"kilo", "milli"}, e \in {2, -1}, m \in {0, 3}}
RECURSIVE SeqOf(_)
SeqOf(S) == IF S = {} THEN <<>> ELSE LET x == CHOOSE y \in S : TRUE IN <<x>> \o SeqOf(S \ {x})
Name(prefix, i) == prefix \o ToString(i)
Numbered(prefix, kidsSeq) == [i \in DOMAIN kidsSeq |-> U(Name(prefix, i), <<kidsSeq[i]>>)]
BaseDefs == <<U("ub", <<>>), U("ub2", <<>>), U("gram", <<>>), U("litre", <<>>), U("metre", <<>>), U("dimensionless", <<>>)>>   \* user base units and bare standard units
NestedDefs ==
    <<U("km", <<Kid("metre", "kilo", 1, 0)>>), U("km2", <<Kid("km", "none", 2, 0)>>), U("perkm2", <<Kid("km2", "none", -1, 0)>>),
      U("m2", <<Kid("metre", "none", 2, 0)>>), U("Mm2", <<Kid("m2", "mega", 1, 0)>>),
      U("pa1", <<Kid("newton", "none", 1, 0), Kid("metre", "none", -2, 0)>>), U("pa2", <<Kid("metre", "none", -2, 0), Kid("newton", "none", 1, 0)>>),
      U("pa3", <<Kid("kilogram", "none", 1, 0), Kid("metre", "none", -1, 0), Kid("second", "none", -2, 0)>>), U("pa4", <<Kid("pascal", "none", 1, 0)>>),
      U("kpa", <<Kid("pa3", "kilo", 1, 0)>>), U("hpa", <<Kid("pa1", "none", 1, 2)>>),
      U("gpl", <<Kid("gram", "none", 1, 0), Kid("litre", "none", -1, 0)>>), U("kgpm3", <<Kid("kilogram", "none", 1, 0), Kid("metre", "none", -3, 0)>>),
      U("mgpml", <<Kid("gram", "milli", 1, 0), Kid("ml", "none", -1, 0)>>), U("ml", <<Kid("litre", "milli", 1, 0)>>),
      U("ms", <<Kid("second", "milli", 1, 0)>>), U("perms", <<Kid("ms", "none", -1, 0)>>), U("khz", <<Kid("hertz", "kilo", 1, 0)>>),
      U("ubs", <<Kid("ub", "none", 1, 0), Kid("second", "none", -1, 0)>>), U("kubs", <<Kid("ub", "kilo", 1, 0), Kid("second", "none", -1, 0)>>), U("ub2s", <<Kid("ub2", "none", 1, 0), Kid("second", "none", -1, 0)>>),
      U("dl1", <<Kid("metre", "none", 1, 0), Kid("metre", "none", -1, 0)>>), U("dl2", <<Kid("dimensionless", "none", 1, 3)>>), U("rad", <<Kid("radian", "none", 1, 0)>>),
      \* two children that both reference user-defined, scaled units (in both orders)
      U("kmpms", <<Kid("km", "none", 1, 0), Kid("ms", "none", -1, 0)>>), U("pmskm", <<Kid("ms", "none", -1, 0), Kid("km", "none", 1, 0)>>),
      U("mps", <<Kid("metre", "none", 1, 0), Kid("second", "none", -1, 0)>>), U("mlpkm", <<Kid("ml", "none", 1, 0), Kid("km", "none", -1, 0), Kid("ms", "none", 1, 0)>>),
      \* a user-defined base unit reached more than once in one reduction (directly, with other exponents, through a nested units)
      U("ubub", <<Kid("ub", "none", 1, 0), Kid("ub", "none", 1, 0)>>), U("ubsq", <<Kid("ub", "none", 2, 0)>>), U("ub21", <<Kid("ub", "none", 2, 0), Kid("ub", "none", -1, 0)>>),
      U("ub12", <<Kid("ub", "none", -1, 0), Kid("ub", "none", 2, 0)>>), U("ubdl", <<Kid("ub", "none", 1, 0), Kid("ub", "none", -1, 0)>>),
      U("ubsub", <<Kid("ubs", "none", 1, 0), Kid("ub", "none", 1, 0)>>), U("ubsqps", <<Kid("ub", "none", 2, 0), Kid("second", "none", -1, 0)>>),
      \* exponents that are no integers and add up (0.1 + 0.2 - 0.3 = 0, 0.1 + 0.2 = 0.3, 0.5 + 0.5 = 1)
      U("fr1", <<KidF("metre", 1), KidF("metre", 2), KidF("metre", -3)>>), U("fr2", <<KidF("metre", 1), KidF("metre", 2), Kid("second", "none", 1, 0)>>),
      U("fr3", <<KidF("metre", 3), Kid("second", "none", 1, 0)>>), U("fr4", <<KidF("ub", 5), KidF("ub", 5)>>), U("fr5", <<KidF("second", 7), KidF("second", -7), Kid("ub", "none", 1, 0)>>),
      U("undef1", <<Kid("nosuch", "none", 1, 0)>>), U("undef2", <<Kid("undef1", "none", 1, 0)>>)>>
ImportedDefs ==
    <<LibU("ikm", <<Kid("metre", "kilo", 1, 0)>>), LibU("ims", <<Kid("second", "milli", 1, 0)>>), LibU("iub", <<>>),
      ImpU("ik", "ikm"), ImpU("is", "ims"), ImpU("ib", "iub"),
      U("km", <<Kid("metre", "kilo", 1, 0)>>), U("ik2", <<Kid("ik", "none", 2, 0)>>), U("km2", <<Kid("km", "none", 2, 0)>>), U("m2", <<Kid("metre", "none", 2, 0)>>),
      U("ikpis", <<Kid("ik", "none", 1, 0), Kid("is", "none", -1, 0)>>), U("mps", <<Kid("metre", "none", 1, 0), Kid("second", "none", -1, 0)>>),
      U("pis2", <<Kid("is", "none", -2, 0)>>), U("kik", <<Kid("ik", "kilo", 1, 0)>>), U("ib2", <<Kid("ib", "none", 2, 0)>>), U("ibm", <<Kid("ib", "none", 1, 0), Kid("metre", "none", 1, 0)>>),
      \* a second imported model that holds a single units, reached through a chain of local units that is longer than that
      \* model is large (names starting with j: the executor puts them in / imports them from its second library model)
      LibU("jmv", <<Kid("volt", "milli", 1, 0)>>), ImpU("jc", "jmv"), U("jb", <<Kid("jc", "none", 1, 0)>>), U("ja", <<Kid("jb", "none", 1, 0)>>),
      U("jk", <<Kid("ja", "kilo", 1, 0)>>), U("mv", <<Kid("volt", "milli", 1, 0)>>), U("v1", <<Kid("volt", "none", 1, 0)>>)>>
Family == CASE Which = "imported" -> BaseDefs \o ImportedDefs
            [] Which = "single" -> BaseDefs \o Numbered("s", SeqOf(SingleKids))
            [] Which = "nested" -> BaseDefs \o NestedDefs
            [] Which = "inexact" -> BaseDefs \o Numbered("x", SeqOf(InexactKids)) \o Numbered("s", SeqOf({k \in SingleKids : k.ref \in {"metre", "gram"}}))
Names == {Family[i].name : i \in DOMAIN Family}

\* the state space: one state per ordered pair, so that TLC's workers share the evaluation (the triple laws are
\* checked with the third unit ranging over a fixed small subset)
\* the reductions are computed once, in the single initial state, and carried as a state variable (TLC does not memoise
\* constant-level functions); the pairs are the successors of the initial state
VARIABLES red, a, b
Init == red = [n \in Names |-> R(Family, n)] /\ a = "-" /\ b = "-"
Next == a = "-" /\ \E x, y \in Names : a' = x /\ b' = y /\ UNCHANGED red
Spec == Init /\ [][Next]_<<red, a, b>>
Thirds == {Family[i].name : i \in {k \in DOMAIN Family : k <= 12}}
Cmp(x, y) == red[x].ok /\ red[y].ok /\ Total(red[x]) = Total(red[y])
FLog(x, y) == red[y].log - red[x].log
Eqv(x, y) == Cmp(x, y) /\ FLog(x, y) = 0
Laws == a # "-" =>
        /\ Cmp(a, a) = red[a].ok
        /\ Cmp(a, b) = Cmp(b, a)
        /\ \A c \in Thirds : (Cmp(a, b) /\ Cmp(b, c)) => Cmp(a, c)
        /\ FLog(a, b) + FLog(b, a) = 0
        /\ \A c \in Thirds : FLog(a, c) = FLog(a, b) + FLog(b, c)
        /\ Eqv(a, b) <=> (Cmp(a, b) /\ FLog(a, b) = 0)
\* child order and indirection do not matter (witnesses in the nested family)
WitnessesImported == Which = "imported" =>
        /\ Eqv("ja", "mv") /\ Eqv("jk", "v1") /\ FLog("ja", "v1") = 3 /\ Eqv("ik", "km") /\ Eqv("ik2", "km2") /\ ~Cmp("ik2", "metre") /\ FLog("ikpis", "mps") = -6 /\ Cmp("ib2", "ib2") /\ ~Cmp("ib2", "ib")
Witnesses == Which = "nested" =>
        /\ Eqv("pa1", "pa2") /\ Eqv("pa1", "pa3") /\ Eqv("pa3", "pa4")
        /\ Cmp("gpl", "kgpm3") /\ FLog("gpl", "kgpm3") = 0 /\ Eqv("mgpml", "gpl")
        /\ FLog("km2", "m2") = -6 /\ Eqv("Mm2", "km2") /\ ~Cmp("ubs", "ub2s")
        /\ Eqv("perms", "khz") /\ ~red["undef2"].ok
        /\ Eqv("kmpms", "pmskm") /\ FLog("kmpms", "mps") = -6
Emit == EmitScenario([which |-> Which, family |-> Family])
EmitInv == (a = "-" /\ "OUT" \in DOMAIN IOEnv) => Emit     \* the family is emitted once, from the initial state
=============================================================================
