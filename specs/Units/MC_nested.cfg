SPECIFICATION Spec
CONSTANT Which = "nested"
INVARIANTS Laws Witnesses EmitInv
CHECK_DEADLOCK FALSE
