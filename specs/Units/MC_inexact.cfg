SPECIFICATION Spec
CONSTANT Which = "inexact"
INVARIANTS Laws Witnesses EmitInv
CHECK_DEADLOCK FALSE
