---------------------------- MODULE UnitsAlgebra ----------------------------
(* C08: the algebra of units on integers.  A units definition is a bag of     *)
(* children u = PRODUCT mult_i * (10^prefix_i * ref_i)^exp_i  (CellML 2.0);   *)
(* it reduces to a map base unit -> exponent and a log10 scale.  Multipliers   *)
(* are powers of ten (logged as their log10) so that everything is exact.      *)
EXTENDS Naturals, Integers, Sequences, FiniteSets
SIBases == {"second", "metre", "kilogram", "ampere", "kelvin", "mole", "candela"}
UserBases == {"ub", "ub2", "iub"}
Bases == SIBases \cup UserBases
Zero == [b \in Bases |-> 0]
Vec(pairs) == [b \in Bases |-> IF \E p \in pairs : p[1] = b THEN (CHOOSE p \in pairs : p[1] = b)[2] ELSE 0]
\* the standard units used (transcribed from utilities.h: standardUnitsList / standardMultiplierList)
StdTable == {<<"second", Vec({<<"second", 1>>}), 0>>, <<"metre", Vec({<<"metre", 1>>}), 0>>, <<"kilogram", Vec({<<"kilogram", 1>>}), 0>>,
             <<"gram", Vec({<<"kilogram", 1>>}), -3>>, <<"litre", Vec({<<"metre", 3>>}), -3>>, <<"dimensionless", Zero, 0>>,
             <<"newton", Vec({<<"kilogram", 1>>, <<"metre", 1>>, <<"second", -2>>}), 0>>,
             <<"pascal", Vec({<<"kilogram", 1>>, <<"metre", -1>>, <<"second", -2>>}), 0>>,
             <<"hertz", Vec({<<"second", -1>>}), 0>>, <<"ampere", Vec({<<"ampere", 1>>}), 0>>,
             <<"coulomb", Vec({<<"ampere", 1>>, <<"second", 1>>}), 0>>, <<"radian", Zero, 0>>,
             <<"volt", Vec({<<"ampere", -1>>, <<"kilogram", 1>>, <<"metre", 2>>, <<"second", -3>>}), 0>>,
             <<"joule", Vec({<<"kilogram", 1>>, <<"metre", 2>>, <<"second", -2>>}), 0>>,
             <<"watt", Vec({<<"kilogram", 1>>, <<"metre", 2>>, <<"second", -3>>}), 0>>}
StdNames == {t[1] : t \in StdTable}
Std(n) == CHOOSE t \in StdTable : t[1] = n
PrefixVal(p) == CASE p = "none" -> 0 [] p = "kilo" -> 3 [] p = "milli" -> -3 [] p = "micro" -> -6 [] p = "mega" -> 6 [] p = "centi" -> -2
                  [] p = "3" -> 3 [] p = "-3" -> -3 [] p = "1" -> 1 [] p = "-6" -> -6 [] OTHER -> 0

\* a family is a sequence of definitions [name, kids, imp, lib]; kid = [ref, prefix, exp, mult]; references go to standard
\* units or to definitions of the family; imp names the definition (of the imported model, lib = TRUE) that an imported
\* units stands for, "none" otherwise
Def(fam, n) == fam[CHOOSE i \in DOMAIN fam : fam[i].name = n]
Defined(fam, n) == \E i \in DOMAIN fam : fam[i].name = n
Scale(v, k) == [b \in Bases |-> k * v[b]]
Plus(v, w) == [b \in Bases |-> v[b] + w[b]]
\* exponents are integers (base); a child may instead carry an exponent in tenths (field e10, on a reference to units without scale):
\* those contributions are kept apart (tenths), the exponent of a base unit is base + tenths / 10
Bad == [base |-> Zero, tenths |-> Zero, log |-> 0, ok |-> FALSE, exact |-> FALSE]
Total(r) == [b \in Bases |-> 10 * r.base[b] + r.tenths[b]]
RECURSIVE Reduce(_, _, _)
RECURSIVE SumKids(_, _, _, _)
Reduce(fam, n, depth) ==
    IF depth = 0 THEN Bad
    ELSE IF Defined(fam, n) /\ ~(n \in StdNames /\ Def(fam, n).kids = <<>>)
    THEN LET d == Def(fam, n) IN
         IF d.imp # "none" THEN Reduce(fam, d.imp, depth - 1)      \* imported units: whatever the imported definition reduces to
         ELSE IF d.kids = <<>>
         THEN IF n \in Bases THEN [base |-> Vec({<<n, 1>>}), tenths |-> Zero, log |-> 0, ok |-> TRUE, exact |-> TRUE] ELSE Bad   \* user base unit
         ELSE SumKids(fam, d.kids, 1, depth)
    ELSE IF n \in StdNames THEN [base |-> Std(n)[2], tenths |-> Zero, log |-> Std(n)[3], ok |-> TRUE, exact |-> TRUE]
    ELSE Bad
SumKids(fam, kids, i, depth) ==
    IF i > Len(kids) THEN [base |-> Zero, tenths |-> Zero, log |-> 0, ok |-> TRUE, exact |-> TRUE]
    ELSE LET k == kids[i]
             r == Reduce(fam, k.ref, depth - 1)
             rest == SumKids(fam, kids, i + 1, depth)
         IN IF "e10" \in DOMAIN k
            THEN [base |-> rest.base, tenths |-> Plus(Plus(Scale(r.base, k.e10), Scale(r.tenths, 0)), rest.tenths), log |-> rest.log,
                  ok |-> r.ok /\ rest.ok /\ r.log = 0 /\ r.tenths = Zero, exact |-> r.exact /\ rest.exact]
            ELSE
            [base |-> Plus(Scale(r.base, k.exp), rest.base), tenths |-> Plus(Scale(r.tenths, k.exp), rest.tenths),
             log |-> k.mult + k.exp * (PrefixVal(k.prefix) + r.log) + rest.log,
             ok |-> r.ok /\ rest.ok,
             exact |-> r.exact /\ rest.exact /\ (k.exp = 1 \/ (PrefixVal(k.prefix) = 0 /\ k.mult = 0))]
R(fam, n) == Reduce(fam, n, 6)

Compatible(fam, a, b) == R(fam, a).ok /\ R(fam, b).ok /\ Total(R(fam, a)) = Total(R(fam, b))
FactorLog(fam, a, b) == R(fam, b).log - R(fam, a).log        \* scalingFactor(a, b) = units2 / units1 = 10^FactorLog
Equivalent(fam, a, b) == Compatible(fam, a, b) /\ FactorLog(fam, a, b) = 0
Exact(fam, a, b) == R(fam, a).exact /\ R(fam, b).exact
=============================================================================
