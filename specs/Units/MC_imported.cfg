SPECIFICATION Spec
CONSTANT Which = "imported"
INVARIANTS Laws Witnesses WitnessesImported EmitInv
CHECK_DEADLOCK FALSE
