SPECIFICATION Spec
CONSTANTS Tier = "pairs"
 Stride = 1
INVARIANT Emit
CHECK_DEADLOCK FALSE
