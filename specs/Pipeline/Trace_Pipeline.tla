--------------------------- MODULE Trace_Pipeline ---------------------------
(* C01: the recorded sessions against Pipeline.  Every line of the trace is one event; the session state machine of    *)
(* Pipeline is stepped with it (Call -> Return per stage, in the order the session announced); a Crash or Hang event,  *)
(* a stage out of order, an incoherent issue list, a session that stops before its last stage, or a model whose printed *)
(* form changed under stages that only read it, is reported.                                                            *)
EXTENDS Pipeline, TraceIO, LoggerObs, KnownFindings
VARIABLES l, dig, cursc, lab
tvars == <<order, pos, pc, status, l, dig, cursc, lab>>
TInit == l = 1 /\ order = <<>> /\ pos = 0 /\ pc = "idle" /\ status = "ok" /\ dig = "none" /\ cursc = -1 /\ lab = <<>>
Done == (order # <<>> /\ pos = Len(order) + 1 /\ pc = "idle") \/ status # "ok"
StageNow == IF pc = "inParse" \/ pos = 0 THEN "parse" ELSE IF pos \in DOMAIN order THEN order[pos] ELSE "none"
LogOk(ev) == "log" \notin DOMAIN ev \/ LogCoherent(ev.log)
\* Known deviation ExponentialUnitsWalk: exactly the recorded input - the units graph in which every units names the next one in two
\* children, 40 levels deep - and exactly a hang (the walks over units references have no memory of what they visited)
Dev(d, ev) == d = "ExponentialUnitsWalk" /\ ev.e = "Hang" /\ Len(lab) >= 2 /\ lab[1] = "units" /\ lab[2] = "doubling40"
Step(ev) ==
    CASE ev.e = "Reset" ->
            /\ (IF cursc >= 0 /\ ~Done THEN Verdict("bad", l, cursc, <<"the session stopped before its last stage", StageNow>>) ELSE TRUE)
            /\ order' = <<>> /\ pos' = 0 /\ pc' = "idle" /\ status' = "ok" /\ dig' = "none" /\ cursc' = ev.sc /\ lab' = <<>>
      [] ev.e = "Begin" -> order' = Orders[ev.order] /\ lab' = (IF "label" \in DOMAIN ev THEN ev.label ELSE <<>>) /\ UNCHANGED <<pos, pc, status, dig, cursc>>
      [] ev.e = "Call" ->
            IF ev.stage = "parse" /\ ENABLED CallParse THEN CallParse /\ UNCHANGED <<dig, cursc, lab>>
            ELSE IF ENABLED Call /\ ev.stage = order[pos] THEN Call /\ UNCHANGED <<dig, cursc, lab>>
            ELSE Verdict("bad", l, ev.sc, <<"stage called out of order", ev.stage, StageNow>>) /\ UNCHANGED <<order, pos, pc, status, dig, cursc, lab>>
      [] ev.e = "Return" ->
            IF ev.stage = "parse" /\ pc = "inParse" THEN
                /\ ReturnParse /\ UNCHANGED <<dig, cursc, lab>>
                /\ (IF LogOk(ev) THEN TRUE ELSE Verdict("bad", l, ev.sc, <<"incoherent issue list", ev.stage>>))
            ELSE IF pc = "inStage" /\ ev.stage = order[pos] THEN
                /\ Return /\ UNCHANGED <<cursc, lab>>
                /\ (IF LogOk(ev) THEN TRUE ELSE Verdict("bad", l, ev.sc, <<"incoherent issue list", ev.stage>>))
                /\ (IF ev.stage \in {"print", "reprint"} THEN
                        /\ dig' = ev.digest
                        /\ (IF dig = "none" \/ dig = ev.digest THEN TRUE ELSE Verdict("bad", l, ev.sc, <<"the printed form of the model changed under stages that only read it">>))
                    ELSE UNCHANGED dig)
                /\ (IF ev.stage = "analyse" /\ ev.valid THEN Verdict("nontrivial", l, ev.sc, <<"analysed">>) ELSE TRUE)
            ELSE Verdict("bad", l, ev.sc, <<"return without a matching call", ev.stage, StageNow>>) /\ UNCHANGED <<order, pos, pc, status, dig, cursc, lab>>
      [] ev.e = "Crash" -> /\ Verdict("bad", l, ev.sc, <<"crash", StageNow, ev.what, ev.sig>>)
                           /\ status' = "crashed" /\ pc' = "dead" /\ UNCHANGED <<order, pos, dig, cursc, lab>>
      [] ev.e = "Hang" -> /\ (IF \E d \in KnownDeviations : Dev(d, ev) THEN Verdict("known", l, ev.sc, CHOOSE d \in KnownDeviations : Dev(d, ev))
                              ELSE Verdict("bad", l, ev.sc, <<"hang", StageNow>>))
                          /\ status' = "hung" /\ pc' = "dead" /\ UNCHANGED <<order, pos, dig, cursc, lab>>
      [] OTHER -> Verdict("bad", l, ev.sc, <<"unknown event", ev.e>>) /\ UNCHANGED <<order, pos, pc, status, dig, cursc, lab>>
TNext == /\ l <= Len(TraceLog) /\ l' = l + 1
         /\ Step(TraceLog[l])
\* the last session of the trace has to be complete too
Final == l = Len(TraceLog) + 1 /\ cursc >= 0 /\ ~Done /\ Verdict("bad", l - 1, cursc, <<"the session stopped before its last stage", StageNow>>) /\ l' = l + 1 /\ UNCHANGED <<order, pos, pc, status, dig, cursc, lab>>
TSpec == TInit /\ [][TNext \/ Final]_tvars
Accepted == LET d == TLCGet("stats").diameter IN PrintT(<<"DEPTH", IF d - 1 > Len(TraceLog) THEN Len(TraceLog) + 1 ELSE d>>) /\ d - 1 >= Len(TraceLog)
=============================================================================
