--------------------------- MODULE Trace_Pipeline ---------------------------
(* C01: the recorded sessions against Pipeline.  Every line of the trace is one event; the session state machine of    *)
(* Pipeline is stepped with it (Call -> Return per stage, in the order the session announced); a Crash or Hang event,  *)
(* a stage out of order, an incoherent issue list, a session that stops before its last stage, or a model whose printed *)
(* form changed under stages that only read it, is reported.                                                            *)
EXTENDS Pipeline, TraceIO, LoggerObs, KnownFindings
VARIABLES l, dig, cursc
tvars == <<order, pos, pc, status, l, dig, cursc>>
TInit == l = 1 /\ order = <<>> /\ pos = 0 /\ pc = "idle" /\ status = "ok" /\ dig = "none" /\ cursc = -1
Done == (order # <<>> /\ pos = Len(order) + 1 /\ pc = "idle") \/ status # "ok"
StageNow == IF pc = "inParse" \/ pos = 0 THEN "parse" ELSE IF pos \in DOMAIN order THEN order[pos] ELSE "none"
LogOk(ev) == "log" \notin DOMAIN ev \/ LogCoherent(ev.log)
Dev(d, ev) == FALSE
Step(ev) ==
    CASE ev.e = "Reset" ->
            /\ (IF cursc >= 0 /\ ~Done THEN Verdict("bad", l, cursc, <<"the session stopped before its last stage", StageNow>>) ELSE TRUE)
            /\ order' = <<>> /\ pos' = 0 /\ pc' = "idle" /\ status' = "ok" /\ dig' = "none" /\ cursc' = ev.sc
      [] ev.e = "Begin" -> order' = Orders[ev.order] /\ UNCHANGED <<pos, pc, status, dig, cursc>>
      [] ev.e = "Call" ->
            IF ev.stage = "parse" /\ ENABLED CallParse THEN CallParse /\ UNCHANGED <<dig, cursc>>
            ELSE IF ENABLED Call /\ ev.stage = order[pos] THEN Call /\ UNCHANGED <<dig, cursc>>
            ELSE Verdict("bad", l, ev.sc, <<"stage called out of order", ev.stage, StageNow>>) /\ UNCHANGED <<order, pos, pc, status, dig, cursc>>
      [] ev.e = "Return" ->
            IF ev.stage = "parse" /\ pc = "inParse" THEN
                /\ ReturnParse /\ UNCHANGED <<dig, cursc>>
                /\ (IF LogOk(ev) THEN TRUE ELSE Verdict("bad", l, ev.sc, <<"incoherent issue list", ev.stage>>))
            ELSE IF pc = "inStage" /\ ev.stage = order[pos] THEN
                /\ Return /\ UNCHANGED cursc
                /\ (IF LogOk(ev) THEN TRUE ELSE Verdict("bad", l, ev.sc, <<"incoherent issue list", ev.stage>>))
                /\ (IF ev.stage \in {"print", "reprint"} THEN
                        /\ dig' = ev.digest
                        /\ (IF dig = "none" \/ dig = ev.digest THEN TRUE ELSE Verdict("bad", l, ev.sc, <<"the printed form of the model changed under stages that only read it">>))
                    ELSE UNCHANGED dig)
                /\ (IF ev.stage = "analyse" /\ ev.valid THEN Verdict("nontrivial", l, ev.sc, <<"analysed">>) ELSE TRUE)
            ELSE Verdict("bad", l, ev.sc, <<"return without a matching call", ev.stage, StageNow>>) /\ UNCHANGED <<order, pos, pc, status, dig, cursc>>
      [] ev.e = "Crash" -> /\ Verdict("bad", l, ev.sc, <<"crash", StageNow, ev.what, ev.sig>>)
                           /\ status' = "crashed" /\ pc' = "dead" /\ UNCHANGED <<order, pos, dig, cursc>>
      [] ev.e = "Hang" -> /\ Verdict("bad", l, ev.sc, <<"hang", StageNow>>)
                          /\ status' = "hung" /\ pc' = "dead" /\ UNCHANGED <<order, pos, dig, cursc>>
      [] OTHER -> Verdict("bad", l, ev.sc, <<"unknown event", ev.e>>) /\ UNCHANGED <<order, pos, pc, status, dig, cursc>>
TNext == /\ l <= Len(TraceLog) /\ l' = l + 1
         /\ Step(TraceLog[l])
\* the last session of the trace has to be complete too
Final == l = Len(TraceLog) + 1 /\ cursc >= 0 /\ ~Done /\ Verdict("bad", l - 1, cursc, <<"the session stopped before its last stage", StageNow>>) /\ l' = l + 1 /\ UNCHANGED <<order, pos, pc, status, dig, cursc>>
TSpec == TInit /\ [][TNext \/ Final]_tvars
Accepted == LET d == TLCGet("stats").diameter IN PrintT(<<"DEPTH", IF d - 1 > Len(TraceLog) THEN Len(TraceLog) + 1 ELSE d>>) /\ d - 1 >= Len(TraceLog)
=============================================================================
