SPECIFICATION GoodSpec
INVARIANT AlwaysOk
PROPERTY Completes
CHECK_DEADLOCK FALSE
