------------------------------ MODULE Pipeline ------------------------------
(* C01: a session hands one byte string to the parser and then applies every public stage to whatever came back.      *)
(* One action per public call: Call(stage) when the executor is about to enter the library, Return(stage) when the     *)
(* call came back.  The property: every called stage returns - a session never ends in "crashed" or "hung" - and       *)
(* whatever is wrong with the input is visible only through the issue list (LoggerObs) of the service that ran.        *)
(* The gates of the mechanism (what each stage is handed) explain which stages see which inputs; they steer the        *)
(* generation and the vacuity accounting, they are not part of the oracle.                                             *)
EXTENDS Naturals, Sequences, FiniteSets
Stages == {"validate", "print", "queries", "clone", "repair", "annotate", "resolve", "flatten", "analyse", "generateC", "generatePy", "reprint"}
Orders == [canonical |-> <<"validate", "print", "queries", "clone", "repair", "annotate", "resolve", "flatten", "analyse", "generateC", "generatePy", "reprint">>,
           analysisFirst |-> <<"print", "analyse", "generateC", "generatePy", "flatten", "resolve", "validate", "queries", "repair", "clone", "annotate", "reprint">>,
           importsFirst |-> <<"print", "resolve", "flatten", "queries", "analyse", "generatePy", "generateC", "annotate", "repair", "clone", "validate", "reprint">>]
\* stages that only read the parsed model: the printed form of the model is the same before and after them
\* (repair and annotate work on a clone, flatten returns a new model, resolve attaches models without changing what is printed)
ReadOnly == Stages
VARIABLES order, pos, pc, status
vars == <<order, pos, pc, status>>
Init == order \in {Orders[k] : k \in DOMAIN Orders} /\ pos = 0 /\ pc = "idle" /\ status = "ok"
CallParse == pos = 0 /\ pc = "idle" /\ status = "ok" /\ pc' = "inParse" /\ UNCHANGED <<order, pos, status>>
ReturnParse == pc = "inParse" /\ pc' = "idle" /\ pos' = 1 /\ UNCHANGED <<order, status>>
Call == pc = "idle" /\ status = "ok" /\ pos \in 1..Len(order) /\ pc' = "inStage" /\ UNCHANGED <<order, pos, status>>
Return == pc = "inStage" /\ pc' = "idle" /\ pos' = pos + 1 /\ UNCHANGED <<order, status>>
\* what the property excludes; present in the model so that the trace specification can name what it saw
Crash == pc \in {"inParse", "inStage"} /\ status' = "crashed" /\ pc' = "dead" /\ UNCHANGED <<order, pos>>
Hang == pc \in {"inParse", "inStage"} /\ status' = "hung" /\ pc' = "dead" /\ UNCHANGED <<order, pos>>
NextGood == CallParse \/ ReturnParse \/ Call \/ Return
Next == NextGood \/ Crash \/ Hang
GoodSpec == Init /\ [][NextGood]_vars /\ WF_vars(NextGood)
Spec == Init /\ [][Next]_vars
\* C01 on the design: without Crash / Hang every session runs all its stages
AlwaysOk == status = "ok"
Completes == <>(pos = Len(order) + 1)
Finished == pos = Len(order) + 1 /\ pc = "idle"
=============================================================================
