---------------------------- MODULE Gen_Pipeline ----------------------------
(* Scenario generation for C01: documents x parser mode x stage order.                                               *)
EXTENDS HostileDoc, TraceIO
CONSTANTS Tier      \* "quick": skeletons and single features; "pairs": pairs of features of different groups (sampled by Stride)
          , Stride
VARIABLE sc
Fs == AllFeatures
Singles == {[skeleton |-> "valid20", features |-> {f}] : f \in Fs} \cup {[skeleton |-> s, features |-> {}] : s \in Skeletons}
           \cup {[skeleton |-> s, features |-> {f}] : s \in {"cellml10", "cellml11"}, f \in {g \in Fs : g.group \in {"num", "units"} /\ g.name[1] \in {"exponent", "prefix", "initial_value", "two", "self", "three"}}}
\* pairs of features of different groups, from a pool of representatives of every site
CoreSnippets == {"<apply><min/></apply>", "<piecewise/>", "<apply/>", "<apply><eq/></apply>", "<apply><plus/></apply>", "<apply><diff/><bvar/><ci>v1</ci></apply>", "<ci/>", "<cn/>",
                 "<apply><diff/><bvar><ci>t</ci></bvar><apply><plus/><ci>v1</ci><ci>v2</ci></apply></apply>", "<apply><ci>v1</ci><ci>v1</ci></apply>", "<piecewise><piece/></piecewise>",
                 "<apply><log/><logbase/><ci>v1</ci></apply>", "<apply><root/><degree/><ci>v1</ci></apply>", "<cn cellml:units='u1' type='e-notation'><sep/></cn>", "<apply><rem/><ci>v1</ci></apply>",
                 "{NEST:<apply><plus/><ci>v1</ci>:</apply>:200}", "<ci> v1 </ci>", "<![CDATA[<ci>v1</ci>]]>", "<apply><power/><ci>v1</ci><ci>v1</ci></apply>", "<foo/>"}
InPool(f) == CASE f.group = "num" -> f.name[2] \in {"", "-", "1e999", "{REP:9:400}", "nosuch", "v2", "1.5"}
               [] f.group = "units" -> f.name[2] \in {"both", "connection"}
               [] f.group = "math" -> (f.name[1] \in {"rhs", "whole", "testvalue"} /\ f.name[2] \in CoreSnippets) \/ f.name[1] \in {"mathns", "mathroot"}
               [] OTHER -> TRUE
Pool(t) == {f \in Fs : InPool(f)}
Pairs(t) == UNION {{[skeleton |-> "valid20", features |-> {f, g}] : g \in {h \in Pool(t) : h.group # f.group /\ Compatible(f, h)}} : f \in Pool(t)}
Init == IF Tier = "pairs"
        THEN sc \in {[doc |-> d, mode |-> "permissive", order |-> "canonical"] : d \in Pairs(Tier)}
        ELSE sc \in {[doc |-> d, mode |-> m, order |-> o] : d \in Singles, m \in {"strict", "permissive"}, o \in {"canonical"}}
                    \cup {[doc |-> d, mode |-> "permissive", order |-> o] : d \in {x \in Singles : x.features = {} \/ (\E f \in x.features : f.group \in {"units", "struct"})}, o \in {"analysisFirst", "importsFirst"}}
Next == UNCHANGED sc
Spec == Init /\ [][Next]_sc
RECURSIVE SetSeq(_)
SetSeq(S) == IF S = {} THEN <<>> ELSE LET x == CHOOSE y \in S : TRUE IN <<[slot |-> x[1], value |-> x[2]]>> \o SetSeq(S \ {x})
Emit == EmitScenario([skeleton |-> sc.doc.skeleton, slots |-> SetSeq(UNION {f.slots : f \in sc.doc.features}), mode |-> sc.mode, order |-> sc.order,
                      label |-> IF sc.doc.features = {} THEN <<"skeleton", sc.doc.skeleton>> ELSE LET f == CHOOSE g \in sc.doc.features : TRUE IN <<f.group>> \o f.name,
                      nfeatures |-> Cardinality(sc.doc.features)])
=============================================================================
