----------------------------- MODULE HostileDoc -----------------------------
(* C01: abstract hostile documents.  A document is a skeleton plus a set of features; a feature overrides named slots  *)
(* of the skeleton's template (harness/drv_pipeline.cpp holds the templates, the slot values are given here).          *)
(* Values use single-quoted XML attributes and the macros {REP:text:count} and {NEST:open:close:count} expanded by the  *)
(* executor, so that long and deeply nested values stay symbolic in the specification.                                  *)
EXTENDS Naturals, Sequences, FiniteSets, TLC
Slot(s, v) == <<s, v>>
Feature(group, name, slots) == [group |-> group, name |-> name, slots |-> slots]

\* ---------------------------------------------------------------- numeric text
NumStrings == {"", "-", "+", ".", "e", "E5", "1e", "1e+", "-.", "1..2", "1,5", " 1", "1 ", "1 2", "0x1F", "1e999", "-1e999", "1e-999", "NaN", "nan", "inf", "-inf", "Infinity",
               "{REP:9:400}", "{REP:9:400}.5", "0.{REP:0:400}1", "1e{REP:9:30}", "+1", "1.", ".5", "-0", "1e5", "1E5", "2147483648", "-2147483649", "99999999999999999999",
               "1.5", "--1", "1-", "1e1e1", "1e1.5", "{EACUTE}", "1{AMP}amp;", "0", "-1", "3"}
NumSites == {"exponent", "multiplier", "prefix", "initial_value", "order", "cn", "mantissa", "sep", "resetcn"}
NumFeatures == {Feature("num", <<site, v>>, {Slot(site, v)} \cup (IF site \in {"mantissa", "sep"} THEN {Slot("cntype", " type='e-notation'")} ELSE {})
                                                             \cup (IF site \in {"order", "resetcn"} THEN {Slot("reset", "yes")} ELSE {})) : site \in NumSites, v \in NumStrings}
                \cup {Feature("num", <<"initial_value", v>>, {Slot("initial_value", v)}) : v \in {"v2", "v1", "v3", "nosuch", "t", "c2"}}
                \cup {Feature("num", <<"prefix", v>>, {Slot("prefix", v)}) : v \in {"kilo", "milli", "yotta", "Kilo", "mega ", "quetta", "25", "-25", "100", "{REP:k:200}"}}

\* ---------------------------------------------------------------- units reference graphs and their users
UnitGraphs == {<<"self", {Slot("u2ref", "u2")}>>, <<"two", {Slot("u2ref", "u3"), Slot("u3ref", "u2")}>>, <<"three", {Slot("u1ref", "u2"), Slot("u2ref", "u3"), Slot("u3ref", "u1")}>>,
               <<"missing", {Slot("u2ref", "nosuch")}>>, <<"selfchain", {Slot("u2ref", "u3"), Slot("u3ref", "u3")}>>, <<"deep", {Slot("moreunits", "{CHAIN:40}"), Slot("u2ref", "k1")}>>,
               <<"deepcycle", {Slot("moreunits", "{CHAIN:40}"), Slot("u2ref", "k1"), Slot("chainend", "u2")}>>, <<"emptyname", {Slot("u2ref", "")}>>, <<"standardname", {Slot("u2name", "second")}>>,
               <<"dupname", {Slot("u3name", "u2")}>>}
UnitUsers == {<<"nobody", {}>>, <<"variable", {Slot("v1units", "u2")}>>, <<"connection", {Slot("v1units", "u2"), Slot("wunits", "u3")}>>, <<"cn", {Slot("cnunits", "u2")}>>,
              <<"both", {Slot("v1units", "u2"), Slot("wunits", "u2"), Slot("cnunits", "u2")}>>}
\* a units reached along 2^n paths (each units names the next one in two children): small, valid, acyclic
Doubling(n) == {Slot("moreunits", "{DOUBLING:" \o ToString(n) \o "}"), Slot("u2ref", "k1"), Slot("v1units", "u2")}
UnitFeatures == {Feature("units", <<g[1], u[1]>>, g[2] \cup u[2]) : g \in UnitGraphs, u \in UnitUsers}
                \cup {Feature("units", <<"doubling12", "variable">>, Doubling(12)), Feature("units", <<"doubling40", "variable">>, Doubling(40))}

\* ---------------------------------------------------------------- MathML
Snippets == {"<apply><min/></apply>", "<apply><max/></apply>", "<piecewise/>", "<apply/>", "<apply><eq/></apply>", "<apply><plus/></apply>", "<apply><minus/></apply>", "<apply><times/></apply>",
             "<apply><divide/><ci>v1</ci></apply>", "<apply><power/><ci>v1</ci></apply>", "<apply><root/></apply>", "<apply><root/><degree/><ci>v1</ci></apply>",
             "<apply><root/><degree><ci>v1</ci></degree></apply>", "<apply><log/><logbase/><ci>v1</ci></apply>", "<apply><log/><logbase><ci>v1</ci></logbase></apply>", "<apply><log/></apply>",
             "<apply><diff/></apply>", "<apply><diff/><bvar/><ci>v1</ci></apply>", "<apply><diff/><bvar><ci>t</ci></bvar></apply>", "<apply><diff/><ci>v1</ci></apply>",
             "<apply><diff/><bvar><ci>t</ci><degree><cn cellml:units='dimensionless'>2</cn></degree></bvar><ci>v1</ci></apply>", "<apply><diff/><bvar><ci>v1</ci></bvar><ci>t</ci></apply>",
             "<apply><diff/><bvar><ci>t</ci></bvar><apply><plus/><ci>v1</ci><ci>v2</ci></apply></apply>", "<apply><diff/><bvar><cn cellml:units='second'>1</cn></bvar><ci>v1</ci></apply>",
             "<ci/>", "<ci></ci>", "<ci>nosuch</ci>", "<ci> v1 </ci>", "<ci>v1<ci>v2</ci></ci>", "<cn/>", "<cn cellml:units='u1'/>", "<cn cellml:units='u1'>.</cn>", "<cn>1</cn>", "<cn cellml:units='nosuch'>1</cn>",
             "<cn cellml:units='u1' type='e-notation'>1</cn>", "<cn cellml:units='u1' type='e-notation'><sep/></cn>", "<cn cellml:units='u1' type='e-notation'>1<sep/></cn>",
             "<cn cellml:units='u1' type='e-notation'><sep/>1</cn>", "<cn cellml:units='u1' type='e-notation'>1<sep/>2<sep/>3</cn>", "<cn cellml:units='u1' type='rational'>1<sep/>2</cn>",
             "<cn cellml:units='u1' type='nosuch'>1</cn>",
             "<cn xmlns:a='http://www.cellml.org/cellml/2.0#' xmlns:b='http://www.cellml.org/cellml/2.0#' a:units='u1'>1</cn>",
             "<apply xmlns:c1='http://www.cellml.org/cellml/2.0#' xmlns:c2='http://www.cellml.org/cellml/2.0#'><plus/><ci>v1</ci><cn c2:units='u1'>1</cn></apply>", "<cn cellml:units='u1'>1<ci>v1</ci></cn>",
             "<piecewise><piece/></piecewise>", "<piecewise><piece><ci>v1</ci></piece></piecewise>", "<piecewise><otherwise/></piecewise>", "<piecewise><otherwise><ci>v1</ci></otherwise></piecewise>",
             "<piecewise><piece><ci>v1</ci><ci>v1</ci><ci>v1</ci></piece></piecewise>", "<piecewise><otherwise><ci>v1</ci></otherwise><otherwise><ci>v1</ci></otherwise></piecewise>",
             "<piecewise><piece><ci>v1</ci><true/></piece><piece><ci>v1</ci><false/></piece></piecewise>",
             "<apply><and/></apply>", "<apply><not/></apply>", "<apply><not/><ci>v1</ci><ci>v1</ci></apply>", "<apply><rem/><ci>v1</ci></apply>", "<apply><abs/></apply>", "<apply><sin/></apply>",
             "<apply><sin/><ci>v1</ci><ci>v1</ci></apply>", "<apply><ci>v1</ci><ci>v1</ci></apply>", "<apply><ci>v1</ci></apply>", "<apply><cn cellml:units='u1'>1</cn></apply>",
             "<apply><piecewise><piece><ci>v1</ci><true/></piece></piecewise></apply>", "<apply><apply><plus/><ci>v1</ci><ci>v1</ci></apply></apply>", "<apply><true/></apply>", "<apply><pi/></apply>", "<apply><cn cellml:units='u1'>1</cn><ci>v1</ci></apply>", "<apply><apply><plus/></apply><ci>v1</ci></apply>",
             "<apply><eq/><ci>v1</ci><ci>v1</ci></apply>", "<apply><lt/><ci>v1</ci></apply>", "<apply><xor/><ci>v1</ci></apply>", "<apply><plus/><ci>v1</ci><apply><eq/><ci>v1</ci><ci>v1</ci></apply></apply>",
             "<true/>", "<false/>", "<pi/>", "<exponentiale/>", "<infinity/>", "<notanumber/>", "<foo/>", "<apply><foo/><ci>v1</ci></apply>", "<semantics><ci>v1</ci></semantics>", "<lambda><bvar><ci>v1</ci></bvar><ci>v1</ci></lambda>",
             "<apply><plus/><ci>v1</ci><bvar><ci>t</ci></bvar></apply>", "<degree><ci>v1</ci></degree>", "<logbase><ci>v1</ci></logbase>", "<bvar><ci>t</ci></bvar>", "<sep/>", "<piece><ci>v1</ci><true/></piece>", "<otherwise><ci>v1</ci></otherwise>",
             "text", "<apply><plus/>text<ci>v1</ci></apply>", "<!-- c -->", "<ci><!-- c -->v1</ci>", "<ci>v1<!-- c --></ci>", "<cn cellml:units='u1'><!-- c -->1</cn>", "<cn cellml:units='u1'>1<!-- c --></cn>",
             "<cn cellml:units='u1' type='e-notation'><!-- c -->1<!-- c --><sep/><!-- c -->2</cn>", "<cn cellml:units='u1' type='e-notation'>1<sep/>2<!-- c --></cn>", "<apply><plus/><!-- c --><ci>v1</ci><ci>v1</ci></apply>", "<![CDATA[<ci>v1</ci>]]>",
             "{NEST:<apply><plus/><ci>v1</ci>:</apply>:200}", "{NEST:<apply><plus/><ci>v1</ci>:</apply>:3000}", "{NEST:<apply><minus/>:</apply>:300}",
             "{NEST:<piecewise><piece><ci>v1</ci><true/></piece><otherwise>:</otherwise></piecewise>:150}", "<apply><plus/>{REP:<ci>v1</ci>:2000}</apply>",
             "<ci>v1{REP: :30000}</ci>", "<apply><plus/>{REP: :30000}<ci>v1</ci><ci>v1</ci></apply>",        \* long runs of whitespace (the document stays under 64 KiB)
             "<apply><power/><ci>v1</ci><cn cellml:units='dimensionless'>1e999</cn></apply>", "<apply><root/><degree><cn cellml:units='dimensionless'>0</cn></degree><ci>v1</ci></apply>",
             "<apply><divide/><ci>v1</ci><cn cellml:units='dimensionless'>0</cn></apply>", "<apply><log/><logbase><cn cellml:units='dimensionless'>0</cn></logbase><ci>v1</ci></apply>",
             "<apply><power/><ci>v1</ci><ci>v1</ci></apply>", "<apply><power/><apply><power/><ci>v1</ci><ci>v1</ci></apply><ci>v1</ci></apply>",
             "<apply><times/><ci>v1</ci><apply><power/><ci>t</ci><cn cellml:units='dimensionless'>0.5</cn></apply></apply>", "<apply><root/><apply><root/><ci>v1</ci></apply></apply>"}
Places == {"rhs", "lhs", "whole", "arg", "testvalue", "bare"}
MathFeatures == {Feature("math", <<p, s>>, {Slot("mathplace", p), Slot("snippet", s)} \cup (IF p = "testvalue" THEN {Slot("reset", "yes")} ELSE {})) : p \in Places, s \in Snippets}
                \cup {Feature("math", <<"mathns", v>>, {Slot("mathns", v)}) : v \in {"", "http://www.w3.org/1998/Math/MathML2", "http://www.cellml.org/cellml/2.0#"}}
                \cup {Feature("math", <<"mathroot", v>>, {Slot("mathroot", v)}) : v \in {"apply", "Math", "mml:math"}}
                \* namespace declarations on the math element: the CellML namespace bound to two or three prefixes, next to each other and apart
                \cup {Feature("math", <<"mathattrs", v>>, {Slot("mathattrs", v), Slot("mathplace", "rhs"), Slot("snippet", sn)}) :
                        v \in {"xmlns:cellml='http://www.cellml.org/cellml/2.0#' xmlns:cml='http://www.cellml.org/cellml/2.0#'",
                               "xmlns:a='http://www.cellml.org/cellml/2.0#' xmlns:b='http://www.cellml.org/cellml/2.0#' xmlns:c='http://www.cellml.org/cellml/2.0#'",
                               "xmlns:a='http://www.cellml.org/cellml/2.0#' xmlns:x='urn:x' xmlns:b='http://www.cellml.org/cellml/2.0#'",
                               "xmlns:a='http://www.cellml.org/cellml/1.1#' xmlns:b='http://www.cellml.org/cellml/1.1#'", "xmlns:x='urn:x' xmlns:y='urn:x'"},
                        sn \in {"<cn cellml:units='u1'>1</cn>", "<ci>v1</ci>"}}

\* ---------------------------------------------------------------- structure
StructFeatures ==
    {Feature("struct", <<"encaps", v>>, {Slot("encaps", v)}) : v \in {
        "", "<component_ref component='c1'/>", "<component_ref component='c1'><component_ref component='c1'/></component_ref>",
        "<component_ref component='c1'><component_ref component='c2'><component_ref component='c1'/></component_ref></component_ref>",
        "<component_ref component='c1'><component_ref component='c2'/><component_ref component='c2'/></component_ref>",
        "<component_ref component='c1'><component_ref component='c2'/></component_ref><component_ref component='c2'><component_ref component='c1'/></component_ref>",
        "<component_ref component='nosuch'><component_ref component='c2'/></component_ref>", "<component_ref><component_ref component='c2'/></component_ref>",
        "<component_ref component='c2'><component_ref component='c1'/></component_ref>", "{NEST:<component_ref component='c1'>:</component_ref>:500}", "<foo/>", "text"}}
    \cup {Feature("struct", <<"maps", v>>, {Slot("maps", v)}) : v \in {
        "", "<map_variables variable_1='v1' variable_2='nosuch'/>", "<map_variables variable_1='nosuch' variable_2='w'/>", "<map_variables variable_1='v1'/>", "<map_variables/>",
        "<map_variables variable_1='v1' variable_2='w'/><map_variables variable_1='v1' variable_2='w'/>", "<map_variables variable_1='v1' variable_2='w'/><map_variables variable_1='v2' variable_2='w'/>",
        "<map_variables variable_1='v1' variable_2='w'/><map_variables variable_1='v1' variable_2='t'/>", "<map_variables variable_1='w' variable_2='v1'/>", "<map_variables variable_1='t' variable_2='w'/>",
        "{REP:<map_variables variable_1='v1' variable_2='w'/>:300}"}}
    \cup {Feature("struct", <<"conn", v>>, {Slot("conncomps", v)}) : v \in {"component_1='c1' component_2='c1'", "component_1='c1' component_2='nosuch'", "component_1='c1'", "", "component_1='c2' component_2='c1'", "component_1='' component_2=''"}}
    \cup {Feature("struct", <<"extraconn", v>>, {Slot("extra", v)}) : v \in {
        "<connection component_1='c1' component_2='c2'><map_variables variable_1='v2' variable_2='w'/></connection>",
        "<connection component_1='c2' component_2='c1'><map_variables variable_1='w' variable_2='v1'/></connection>",
        "<connection component_1='c1' component_2='c1'><map_variables variable_1='v1' variable_2='v2'/></connection>",
        "<component name='c3'><variable name='w' units='u1' interface='public'/></component><connection component_1='c2' component_2='c3'><map_variables variable_1='w' variable_2='w'/></connection><connection component_1='c3' component_2='c1'><map_variables variable_1='w' variable_2='v1'/></connection>",
        "<component name='c1'/>", "<component/>", "<component name=''/>", "<units name='u1'/>", "<units/>", "<encapsulation/>", "<encapsulation><component_ref component='c2'/></encapsulation>", "<model name='inner'/>", "<foo/>", "text",
        "<import xlink:href='nosuch.cellml'><component name='imp' component_ref='x'/></import>", "<import xlink:href=''><units name='impu' units_ref='x'/></import>", "<import><component name='imp' component_ref='x'/></import>",
        "<import xlink:href='nosuch.cellml'><component name='c1' component_ref='x'/></import>", "<import xlink:href='nosuch.cellml'><units name='impu' units_ref='x'/></import><component name='c4'><variable name='q' units='impu'/></component>",
        "<import xlink:href='nosuch.cellml'/>", "<import xlink:href='nosuch.cellml'><foo/></import>", "{REP:<component name='d'/>:2000}", "{PAIRWISE:8}", "{PAIRWISE:14}", "{PAIRWISE:30}", "{RING:40}"}}
    \cup {Feature("struct", <<"interface", v>>, {Slot("interface", v)}) : v \in {"", "none", "public", "private", "Public", "public_and_private ", "{REP:x:70000}"}}
    \cup {Feature("struct", <<"name", v>>, {Slot("modelName", v)}) : v \in {"", "1a", "a b", "{REP:n:70000}", "{EACUTE}", "{AMP}amp;", "{AMP}#0;", "{AMP}#xD800;", "{AMP}nosuch;", "a{AMP}lt;b"}}
    \cup {Feature("struct", <<"varname", v>>, {Slot("v2name", v)}) : v \in {"", "v1", "t", "1v", "{REP:v:70000}", "v 2"}}
    \cup {Feature("struct", <<"reset", v>>, {Slot("reset", "yes"), Slot("resetattrs", v)}) : v \in {
        "variable='v3' test_variable='v2' order='1'", "variable='v3' test_variable='v2'", "variable='v3' order='1'", "test_variable='v2' order='1'", "", "variable='nosuch' test_variable='v2' order='1'",
        "variable='v3' test_variable='nosuch' order='1'", "variable='w' test_variable='v2' order='1'", "variable='v3' test_variable='v3' order='1'"}}
    \cup {Feature("struct", <<"resetbody", v>>, {Slot("reset", "yes"), Slot("resetbody", v)}) : v \in {
        "", "<test_value/>", "<reset_value/>", "<test_value/><reset_value/>", "<test_value><math xmlns='http://www.w3.org/1998/Math/MathML'/></test_value><reset_value><math xmlns='http://www.w3.org/1998/Math/MathML'/></reset_value>",
        "<test_value>text</test_value><reset_value>text</reset_value>", "<test_value><foo/></test_value><reset_value><foo/></reset_value>", "<foo/>",
        "<test_value><math xmlns='http://www.w3.org/1998/Math/MathML'><ci>v2</ci></math></test_value><test_value><math xmlns='http://www.w3.org/1998/Math/MathML'><ci>v2</ci></math></test_value>",
        "<reset_value><math xmlns='http://www.w3.org/1998/Math/MathML'><ci>v2</ci><ci>v2</ci></math></reset_value><test_value><math xmlns='http://www.w3.org/1998/Math/MathML'><apply><eq/><ci>v2</ci><ci>v2</ci></apply></math></test_value>"}}
    \cup {Feature("struct", <<"tworesets", v>>, {Slot("reset", "yes"), Slot("order", "1"), Slot("reset2order", v)}) : v \in {"1", "2", "-1", ""}}
    \cup {Feature("struct", <<"rootns", v>>, {Slot("rootns", v)}) : v \in {"", "http://www.cellml.org/cellml/2.0", "http://www.cellml.org/cellml/3.0#", "http://www.w3.org/1998/Math/MathML"}}
    \cup {Feature("struct", <<"cellmlprefix", v>>, {Slot("cellmlprefix", v)}) : v \in {"", "xmlns:cellml='http://www.cellml.org/cellml/1.1#'", "xmlns:cellml='urn:other'"}}
    \cup {Feature("struct", <<"prolog", v>>, {Slot("prolog", v)}) : v \in {
        "", "<?xml version='1.0' encoding='UTF-16'?>", "<?xml version='1.0' encoding='nosuch'?>", "<?xml version='9.9'?>", "{BOM}<?xml version='1.0' encoding='UTF-8'?>",
        "<?xml version='1.0'?><!DOCTYPE model [<!ENTITY a 'aaaaaaaaaa'><!ENTITY b '&a;&a;&a;&a;&a;&a;&a;&a;&a;&a;'><!ENTITY c '&b;&b;&b;&b;&b;&b;&b;&b;&b;&b;'><!ENTITY d '&c;&c;&c;&c;&c;&c;&c;&c;&c;&c;'>]>",
        "<?xml version='1.0'?><!DOCTYPE model SYSTEM 'nosuch.dtd'>", "<?xml version='1.0'?><!DOCTYPE model [<!ENTITY x SYSTEM 'file:///etc/hostname'>]>", "<!-- c --><?pi x?>", "\n\n  "}}
    \cup {Feature("struct", <<"tail", v>>, {Slot("tail", v)}) : v \in {"<model/>", "text", "<!-- c -->", "{NUL}", "<"}}

\* ---------------------------------------------------------------- skeletons
Skeletons == {"valid20", "cellml10", "cellml11", "html", "svg", "mathonly", "empty", "declonly", "rootonly", "rootonly10", "garbage", "nul", "lt", "cut10", "cut25", "cut50", "cut75", "cut90", "cut99",
              "deepxml", "wideattrs", "hugetext", "latin1bytes", "utf16bytes"}
AllFeatures == NumFeatures \cup UnitFeatures \cup MathFeatures \cup StructFeatures
SlotsOf(f) == {s[1] : s \in f.slots}
Compatible(f, g) == f # g /\ SlotsOf(f) \cap SlotsOf(g) = {}
=============================================================================
