SPECIFICATION Spec
CONSTANTS Tier = "quick"
 Stride = 1
INVARIANT Emit
CHECK_DEADLOCK FALSE
