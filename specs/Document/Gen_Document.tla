---------------------------- MODULE Gen_Document ----------------------------
(* C02: enumeration of abstract models over the feature space - every single  *)
(* feature value, every pair (thorough), each with every string class at      *)
(* every string site.                                                          *)
EXTENDS CellMLAbstract, TraceIO
CONSTANT Scope    \* "singles" | "pairs" | "triples" (pairs plus all triples of the structural dimensions)
VARIABLE fv
Candidates == IF Scope = "singles" THEN Singles \cup Vary3("site", "cls", "ids") \cup Vary3("site", "cls", "imports")
              ELSE (IF Scope = "triples" THEN Triples({"prefix", "exp", "mult", "depth", "nmaps", "mapIds", "connId", "pairs", "reset", "imports", "ids"}) ELSE {}) \cup Pairs \cup Vary3("site", "cls", "ids") \cup Vary3("site", "cls", "imports") \cup Vary3("site", "cls", "reset") \cup Vary3("site", "cls", "mapIds") \cup Vary3("site", "cls", "connId")
Init == fv \in {f \in Candidates : Sensible(f) /\ ~f.twin}   \* names are unique in C02's domain
Next == UNCHANGED fv
Spec == Init /\ [][Next]_fv
Emit == EmitScenario([fv |-> fv, am |-> ModelOf(fv)])
=============================================================================
