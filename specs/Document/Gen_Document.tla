---------------------------- MODULE Gen_Document ----------------------------
(* C02: enumeration of abstract models over the feature space - every single  *)
(* feature value, every pair (thorough), each with every string class at      *)
(* every string site.                                                          *)
EXTENDS CellMLAbstract, TraceIO
CONSTANT Scope    \* "singles" | "pairs" | "triples" (pairs plus all triples of the structural dimensions)
VARIABLE fv
Candidates == IF Scope = "singles" THEN Singles \cup Vary3("site", "cls", "ids") \cup Vary3("site", "cls", "imports")
              ELSE (IF Scope = "triples" THEN Triples({"prefix", "exp", "mult", "depth", "nmaps", "mapIds", "connId", "pairs", "reset", "imports", "ids"}) ELSE {}) \cup Pairs \cup Vary3("site", "cls", "ids") \cup Vary3("site", "cls", "imports") \cup Vary3("site", "cls", "reset") \cup Vary3("site", "cls", "mapIds") \cup Vary3("site", "cls", "connId")
\* exponents / multipliers that are no numbers at all (only the API can set them): either the validator refuses the model or the
\* document reads back the same
NonFinite == {[FV0 EXCEPT !.exp = "inf"], [FV0 EXCEPT !.exp = "-inf"], [FV0 EXCEPT !.mult = "nan"], [FV0 EXCEPT !.mult = "inf"]}
Init == fv \in {f \in Candidates : Sensible(f) /\ ~f.twin} \cup NonFinite   \* names are unique in C02's domain
Next == UNCHANGED fv
Spec == Init /\ [][Next]_fv
Emit == EmitScenario([fv |-> fv, am |-> ModelOf(fv)])
=============================================================================
