--------------------------- MODULE Trace_Document ---------------------------
(* C02: print -> strict parse preserves the content of the model TLC generated. *)
EXTENDS CellMLAbstract, TraceIO, LoggerObs, KnownFindings
VARIABLE l
Init == l = 1
Logs(ev) == LogCoherent(ev.vlog) /\ LogCoherent(ev.prlog) /\ LogCoherent(ev.plog)
\* an exponent / multiplier that is no number cannot be written down: such a model has to be refused by the validator, and only a
\* model that it accepts has to read back
NotANumber == {"inf", "-inf", "nan"}
MustReadBack(ev) == ev.valid \/ (ev.fv.exp \notin NotANumber /\ ev.fv.mult \notin NotANumber)
Problems(ev) ==
    IF ~MustReadBack(ev) THEN (IF Logs(ev) /\ ev.unchangedByPrint THEN {} ELSE {"incoherent issue list / printer modified the model"}) ELSE
    LET am == ModelOf(ev.fv) IN
    (IF SameContent(ev.built, am) THEN {} ELSE {"harness: built model differs from the abstract model"})
    \cup (IF ev.printedLen > 0 THEN {} ELSE {"printer returned an empty document"})
    \cup (IF "null" \in DOMAIN ev.reparsed THEN {"printed document is not parsed back"}
          ELSE IF SameContent(ev.reparsed, am) THEN {} ELSE {"content changed by print -> parse"})
    \cup (IF ev.valid /\ ev.prules # <<>> THEN {"parser raises issues on the printed form of a valid model"} ELSE {})
    \cup (IF "null" \in DOMAIN ev.reprinted \/ "null" \in DOMAIN ev.reparsed THEN {}
          ELSE IF SameContent(ev.reprinted, am) THEN {} ELSE {"content changed by the second print -> parse"})
    \cup (IF ev.unchangedByPrint THEN {} ELSE {"printer modified the model"})
    \cup (IF Logs(ev) THEN {} ELSE {"incoherent issue list"})
Dev(d, ev) == FALSE
Next == /\ l <= Len(TraceLog) /\ l' = l + 1
        /\ LET ev == TraceLog[l] IN
           IF ev.e = "Reset" THEN TRUE
           ELSE IF ev.e # "roundtrip" THEN Verdict("bad", l, ev.sc, ev.e)
           ELSE IF Problems(ev) = {} THEN TRUE
           ELSE IF \E d \in KnownDeviations : Dev(d, ev) THEN Verdict("known", l, ev.sc, CHOOSE d \in KnownDeviations : Dev(d, ev))
           ELSE Verdict("bad", l, ev.sc, <<Problems(ev), ev.fv>>)
Spec == Init /\ [][Next]_l
Accepted == LET d == TLCGet("stats").diameter IN PrintT(<<"DEPTH", d>>) /\ d - 1 = Len(TraceLog)
=============================================================================
