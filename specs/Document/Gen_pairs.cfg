SPECIFICATION Spec
CONSTANT Scope = "pairs"
INVARIANT Emit
CHECK_DEADLOCK FALSE
