SPECIFICATION Spec
CONSTANT Scope = "triples"
INVARIANT Emit
CHECK_DEADLOCK FALSE
