SPECIFICATION Spec
CONSTANT Scope = "singles"
INVARIANT Emit
CHECK_DEADLOCK FALSE
