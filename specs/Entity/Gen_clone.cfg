SPECIFICATION Spec
CONSTANT What = "clone"
INVARIANT Emit
CHECK_DEADLOCK FALSE
