SPECIFICATION Spec
CONSTANTS What = "clone"
 Scope = "thorough"
INVARIANT Emit
CHECK_DEADLOCK FALSE
