----------------------------- MODULE Gen_Entity -----------------------------
EXTENDS Entity
CONSTANTS What,   \* "equality" | "clone"
          Scope   \* "quick": single features and selected pairs; "thorough": all pairs of features
VARIABLE fv
ModelsFor == {f \in (IF Scope = "thorough" THEN Pairs ELSE Singles \cup Vary2("imports", "reset") \cup Vary2("depth", "twin") \cup Vary2("ids", "imports")) : f.site = "none" /\ f.cls = "plain"}
Init == fv \in ModelsFor
Next == UNCHANGED fv
Spec == Init /\ [][Next]_fv
M == ModelOf(fv)
CloneTargets == {TModel} \cup {TUnits(i) : i \in DOMAIN M.units} \cup {TComp(i) : i \in DOMAIN M.comps}
                \cup UNION {{TVar(i, j) : j \in DOMAIN M.comps[i].vars} \cup {TReset(i, j) : j \in DOMAIN M.comps[i].resets} : i \in DOMAIN M.comps}
                \cup {TImport(i) : i \in {k \in DOMAIN M.comps : M.comps[k].imp # NoneS}}
Emit == IF What = "equality"
        THEN /\ \A mut \in Mutations(M) : EmitScenario([fv |-> fv, am |-> M, mut |-> mut])
             \* two identical sibling components on both sides, one of them then changed on one side: children are matched as a bag
             /\ \A i \in {k \in DOMAIN M.comps : M.comps[k].imp = NoneS /\ M.comps[k].name \in {"d1", "c2"}} :
                    \A mut \in {x \in SetMutations(M) : x.t.k \in {"comp", "var"} /\ x.t.c = i - 1} :
                        EmitScenario([fv |-> fv, am |-> M, pre |-> [op |-> "dupSibling", t |-> TComp(i)], mut |-> mut])
        ELSE /\ \A t \in CloneTargets : EmitScenario([fv |-> fv, am |-> M, t |-> t, mut |-> "none", side |-> "none"])
             \* a reset whose variable / test variable belongs to another component (only the API can build this; the names are
             \* the same, so the content of the clone is still that of the abstract model): model and component clones
             /\ \A i \in {k \in DOMAIN M.comps : M.comps[k].resets # <<>> /\ M.comps[k].name # "d1"} : \A a \in {"varOther", "tvarOther"}, t \in {TModel, TComp(i)} :
                    ((\E k \in DOMAIN M.comps : M.comps[k].name = "d1" /\ M.comps[k].imp = NoneS) /\ (a = "tvarOther" => M.comps[i].resets[1].tvar = "y")) =>
                    EmitScenario([fv |-> fv, am |-> M, t |-> t, mut |-> "none", side |-> "none",
                                  pre |-> [op |-> "set", t |-> TReset(i, 1), attr |-> a, val |-> (IF a = "varOther" THEN "x" ELSE "y"),
                                           oc |-> (CHOOSE k \in DOMAIN M.comps : M.comps[k].name = "d1") - 1]])
             \* an equivalence that leaves the model (partner without a component, in a component without a model, in another model):
             \* it cannot be copied; the clone has the content of the abstract model and no equivalence that reaches outside
             /\ \A o \in {"addEquivParentless", "addEquivOrphan", "addEquivForeign"}, v \in {0, 1} :
                    EmitScenario([fv |-> fv, am |-> M, t |-> TModel, mut |-> "none", side |-> "none", pre |-> [op |-> o, t |-> TModel, c1 |-> 0, v1 |-> v]])
             \* units that name the same units in two children with different attributes: the units, the model, and what holds them
             /\ \A i \in {k \in DOMAIN M.units : M.units[k].kids # <<>>} : \A t \in {TUnits(i), TModel} \cup {TComp(k) : k \in DOMAIN M.comps} :
                    EmitScenario([fv |-> fv, am |-> M, t |-> t, mut |-> "none", side |-> "none", pre |-> [op |-> "dupUnitRef", t |-> TUnits(i)]])
             /\ \A mut \in SetMutations(M) \cup ChildMutations(M), side \in {"orig", "clone"} :
                    EmitScenario([fv |-> fv, am |-> M, t |-> TModel, mut |-> mut, side |-> side])
=============================================================================
