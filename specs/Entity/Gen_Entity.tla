----------------------------- MODULE Gen_Entity -----------------------------
EXTENDS Entity
CONSTANT What   \* "equality" | "clone"
VARIABLE fv
ModelsFor == {f \in Singles \cup Vary2("imports", "reset") \cup Vary2("depth", "twin") \cup Vary2("ids", "imports") : f.site = "none" /\ f.cls = "plain"}
Init == fv \in ModelsFor
Next == UNCHANGED fv
Spec == Init /\ [][Next]_fv
M == ModelOf(fv)
CloneTargets == {TModel} \cup {TUnits(i) : i \in DOMAIN M.units} \cup {TComp(i) : i \in DOMAIN M.comps}
                \cup UNION {{TVar(i, j) : j \in DOMAIN M.comps[i].vars} \cup {TReset(i, j) : j \in DOMAIN M.comps[i].resets} : i \in DOMAIN M.comps}
                \cup {TImport(i) : i \in {k \in DOMAIN M.comps : M.comps[k].imp # NoneS}}
Emit == IF What = "equality"
        THEN \A mut \in Mutations(M) : EmitScenario([fv |-> fv, am |-> M, mut |-> mut])
        ELSE /\ \A t \in CloneTargets : EmitScenario([fv |-> fv, am |-> M, t |-> t, mut |-> "none", side |-> "none"])
             /\ \A mut \in SetMutations(M) \cup ChildMutations(M), side \in {"orig", "clone"} :
                    EmitScenario([fv |-> fv, am |-> M, t |-> TModel, mut |-> mut, side |-> side])
=============================================================================
