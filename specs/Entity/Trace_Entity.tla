---------------------------- MODULE Trace_Entity ----------------------------
(* C10: equals() on copies, permutations and single mutations.                *)
(* C11: clone() content, equality, parent, independence.                      *)
EXTENDS Entity, KnownFindings
VARIABLE l
Init == l = 1

\* ---------------------------------------------------------------- C10
EqProblems(ev) ==
    (IF AllTrue(ev.refl) THEN {} ELSE {"not reflexive"})
    \cup (IF AllTrue(ev.copy) THEN {} ELSE {"independent copy not equal"})
    \cup (IF ev.applied /\ ("preApplied" \in DOMAIN ev => ev.preApplied) THEN {} ELSE {"harness: mutation not applied"})
    \cup (IF \A i \in DOMAIN ev.mutated : ev.mutated[i].ab = ev.mutated[i].ba THEN {} ELSE {"not symmetric"})
    \cup (IF Covered(ev.mut) THEN (IF AllFalse(ev.mutated) THEN {} ELSE {"covered attribute/child changed but still equal"})
          ELSE (IF AllTrue(ev.mutated) THEN {} ELSE {"child order / equivalences must not affect equality"}))
    \cup (IF ev.vsNull THEN {"equal to null"} ELSE {})
    \* the variables that hold the changed units object, and their components
    \cup (IF AllTrue(ev.usersCopy) THEN {} ELSE {"independent copy not equal"})
    \cup (IF \A i \in DOMAIN ev.usersMutated : ev.usersMutated[i].ab = ev.usersMutated[i].ba THEN {} ELSE {"not symmetric"})
    \cup (IF ev.mut.op = "set" THEN (IF AllFalse(ev.usersMutated) THEN {} ELSE {"units of a variable changed but the variable / its component is still equal"})
          ELSE IF ~Covered(ev.mut) THEN (IF AllTrue(ev.usersMutated) THEN {} ELSE {"child order / equivalences must not affect equality"}) ELSE {})

\* ---------------------------------------------------------------- C11
\* expected content of a clone wrapped by the executor (harness/drv_entity.cpp: wrapContent)
Wrap(units, comps) == [name |-> "wrap", id |-> NoneS, encId |-> NoneS, units |-> units, comps |-> comps, conns |-> <<>>]
WComp(vars, resets) == [name |-> "w", id |-> NoneS, encId |-> NoneS, imp |-> NoneS, impId |-> NoneS, ref |-> NoneS, parent |-> NoneS, math |-> NoneS, vars |-> vars, resets |-> resets]
RECURSIVE Under(_, _, _)
Under(m, root, n) == IF n = 0 THEN {} ELSE
    {i \in DOMAIN m.comps : m.comps[i].parent = m.comps[root].name /\ i # root}
    \cup UNION {Under(m, k, n - 1) : k \in {i \in DOMAIN m.comps : m.comps[i].parent = m.comps[root].name /\ i # root}}
SubComps(m, root) ==    \* the cloned component (now parentless) and its descendants; the twin shares a name, so go by position
    LET idx == {root} \cup Under(m, root, 3) IN
    {IF i = root THEN [NormComp(m.comps[i]) EXCEPT !.parent = NoneS] ELSE NormComp(m.comps[i]) : i \in idx}
ExpectedClone(m, t, content) ==
    CASE t.k = "model" -> SameContent(content, m)
      [] t.k = "units" -> SameContent(content, Wrap(<<m.units[t.u + 1]>>, <<>>))
      [] t.k = "comp" -> /\ Len(content.units) = 0 /\ Len(content.conns) = 0       \* lone components: equivalences are not copied
                         /\ {NormComp(content.comps[i]) : i \in DOMAIN content.comps} = SubComps(m, t.c + 1)
                         /\ Len(content.comps) = Cardinality(SubComps(m, t.c + 1))
      [] t.k = "var" -> SameContent(content, Wrap(<<>>, <<WComp(<<m.comps[t.c + 1].vars[t.v + 1]>>, <<>>)>>))
      [] t.k = "reset" -> SameContent(content, Wrap(<<>>, <<WComp(<<>>, <<m.comps[t.c + 1].resets[t.r + 1]>>)>>))
      [] t.k = "import" -> content = [url |-> m.comps[t.c + 1].imp, id |-> m.comps[t.c + 1].impId]
\* a preparation that changes the content: a further unit child naming the units of child 1 again, with other attributes
ApplyPre(m, ev) == IF "pre" \in DOMAIN ev /\ ev.pre.op = "dupUnitRef"
                   THEN [m EXCEPT !.units[ev.pre.t.u + 1].kids = Append(@, Unit(@[1].ref, "micro", "3", "100", "dupid"))] ELSE m
CloneProblems(ev) ==
    LET m == ApplyPre(ModelOf(ev.fv), ev) IN
    (IF ev.cloned /\ ExpectedClone(m, ev.t, ev.content) THEN {} ELSE {"clone content differs from the original's"})
    \cup (IF ev.parentless THEN {} ELSE {"clone has a parent"})
    \cup (IF ev.eqOC /\ ev.eqCO THEN {} ELSE {"clone does not equal the original"})
    \cup (IF ev.origUnchangedByClone THEN {} ELSE {"clone() modified the original"})
    \cup (IF ev.equivInside THEN {} ELSE {"equivalences of the cloned model reach outside the clone"})
    \cup (IF ev.side # "none" /\ ~(ev.applied /\ ev.thisChanged) THEN {"harness: mutation without effect"} ELSE {})
    \cup (IF ev.side # "none" /\ ~ev.otherUnchanged THEN {"original and clone share mutable state"} ELSE {})

\* Known deviation EqualsLeftSubBag: exactly "one side has extra variables / resets / units": the smaller side
\* reports equal, the larger side does not (at every enclosing level), and nothing else is wrong.
\* at the container, the smaller side says "equal"; each enclosing level asks the question the other way round
\* (findComponent evaluates child->equals(argument)), so the direction alternates upward
OneWay(ps, small2big) ==
    /\ \A i \in DOMAIN ps : ps[i].ab # ps[i].ba
    /\ ps[Len(ps)].ab = small2big
    /\ \A i \in 1..(Len(ps) - 1) : ps[i].ab # ps[i + 1].ab
Dev(d, ev) ==
    /\ d = "EqualsLeftSubBag" /\ ev.e = "equals"
    /\ ev.mut.op \in {"addChild", "removeChild"} /\ ev.mut.child \in {"var", "reset", "units"}
    /\ OneWay(ev.mutated, ev.mut.op = "addChild")
    /\ AllTrue(ev.refl) /\ AllTrue(ev.copy) /\ ev.applied /\ ~ev.vsNull

Problems(ev) == IF ev.e = "equals" THEN EqProblems(ev) ELSE IF ev.e = "clone" THEN CloneProblems(ev) ELSE {ev.e}
Next == /\ l <= Len(TraceLog) /\ l' = l + 1
        /\ LET ev == TraceLog[l] IN
           IF ev.e = "Reset" THEN TRUE
           ELSE IF ev.e \notin {"equals", "clone"} THEN Verdict("bad", l, ev.sc, <<ev.e>>)      \* Crash / Hang events of the executor
           ELSE IF Problems(ev) = {} THEN TRUE
           ELSE IF \E d \in KnownDeviations : Dev(d, ev) THEN Verdict("known", l, ev.sc, CHOOSE d \in KnownDeviations : Dev(d, ev))
           ELSE Verdict("bad", l, ev.sc, <<Problems(ev), IF ev.e = "equals" THEN ev.mut ELSE <<ev.t, ev.mut, ev.side>>, ev.fv>>)
Spec == Init /\ [][Next]_l
Accepted == LET d == TLCGet("stats").diameter IN PrintT(<<"DEPTH", d>>) /\ d - 1 = Len(TraceLog)
=============================================================================
