SPECIFICATION Spec
CONSTANTS What = "equality"
 Scope = "quick"
INVARIANT Emit
CHECK_DEADLOCK FALSE
