SPECIFICATION Spec
CONSTANT What = "equality"
INVARIANT Emit
CHECK_DEADLOCK FALSE
