------------------------------- MODULE Entity -------------------------------
(* C10 / C11: single mutations of the entities of an abstract model, and what  *)
(* equals() / clone() must make of them.  Entities are addressed by position   *)
(* (0-based, as the executor does) in the abstract model record.               *)
EXTENDS CellMLAbstract, TraceIO

OtherMath == MathOpen \o Ci("z") \o "{LT}/math{GT}"
SetM(t, attr, val) == [op |-> "set", t |-> t, attr |-> attr, val |-> val]
ChildM(op, t, child) == [op |-> op, t |-> t, child |-> child]

TModel == [k |-> "model"]
TUnits(i) == [k |-> "units", u |-> i - 1]
TUnit(i, j) == [k |-> "unit", u |-> i - 1, j |-> j - 1]
TImportU(i) == [k |-> "importU", u |-> i - 1]
TComp(i) == [k |-> "comp", c |-> i - 1]
TVar(i, j) == [k |-> "var", c |-> i - 1, v |-> j - 1]
TReset(i, j) == [k |-> "reset", c |-> i - 1, r |-> j - 1]
TImport(i) == [k |-> "import", c |-> i - 1]

\* attribute mutations equality must see
SetMutations(m) ==
    {SetM(TModel, a, "zz" \o a) : a \in {"name", "id", "encId"}}
    \cup UNION {{SetM(TUnits(i), a, "zz" \o a) : a \in {"name", "id"} \cup (IF m.units[i].imp # NoneS THEN {"ref"} ELSE {})}
                \cup (IF m.units[i].imp # NoneS THEN {SetM(TImportU(i), "url", "zz.cellml"), SetM(TImportU(i), "id", "zzimp")} ELSE {})
                \cup UNION {{SetM(TUnit(i, j), "unitRef", "candela"), SetM(TUnit(i, j), "prefix", "micro"), SetM(TUnit(i, j), "exp", "7"),
                             SetM(TUnit(i, j), "mult", "7"), SetM(TUnit(i, j), "unitId", "zzk")} : j \in DOMAIN m.units[i].kids}
                : i \in DOMAIN m.units}
    \cup UNION {{SetM(TComp(i), a, "zz" \o a) : a \in {"name", "id", "encId"} \cup (IF m.comps[i].imp # NoneS THEN {"ref"} ELSE {})}
                \cup {SetM(TComp(i), "math", OtherMath)}
                \cup (IF m.comps[i].imp # NoneS THEN {SetM(TImport(i), "url", "zz.cellml"), SetM(TImport(i), "id", "zzimp")} ELSE {})
                \cup UNION {{SetM(TVar(i, j), "name", "zzv"), SetM(TVar(i, j), "id", "zzvid"), SetM(TVar(i, j), "init", "99"),
                             SetM(TVar(i, j), "units", IF m.comps[i].vars[j].units = "second" THEN "dimensionless" ELSE "second"),
                             SetM(TVar(i, j), "iface", IF m.comps[i].vars[j].iface = "public" THEN "private" ELSE "public")}
                            : j \in DOMAIN m.comps[i].vars}
                \cup UNION {{SetM(TReset(i, j), "order", "99"), SetM(TReset(i, j), "order", IF m.comps[i].resets[j].order = "unset" THEN "0" ELSE "unset"),    \* order 0 is not "no order"
                             SetM(TReset(i, j), "id", "zzrid"), SetM(TReset(i, j), "var", "2"), SetM(TReset(i, j), "tvar", "2"),
                             SetM(TReset(i, j), "tv", OtherMath), SetM(TReset(i, j), "tvid", "zztv"), SetM(TReset(i, j), "rv", OtherMath), SetM(TReset(i, j), "rvid", "zzrv")}
                            : j \in DOMAIN m.comps[i].resets}
                : i \in DOMAIN m.comps}
HasKids(m, i) == \E k \in DOMAIN m.comps : m.comps[k].parent = m.comps[i].name
TopLevel(m) == {i \in DOMAIN m.comps : m.comps[i].parent = NoneS}
\* children added / removed: equality must see them (different numbers of children are never equal)
ChildMutations(m) ==
    {ChildM("addChild", TModel, "units"), ChildM("addChild", TModel, "comp"), ChildM("removeChild", TModel, "units"), ChildM("removeChild", TModel, "comp")}
    \cup UNION {{ChildM("addChild", TUnits(i), "unit")} \cup (IF Len(m.units[i].kids) > 0 THEN {ChildM("removeChild", TUnits(i), "unit")} ELSE {}) : i \in DOMAIN m.units}
    \cup UNION {{ChildM("addChild", TComp(i), "var"), ChildM("addChild", TComp(i), "reset"), ChildM("addChild", TComp(i), "comp")}
                \cup (IF Len(m.comps[i].vars) > 0 THEN {ChildM("removeChild", TComp(i), "var")} ELSE {})
                \cup (IF Len(m.comps[i].resets) > 0 THEN {ChildM("removeChild", TComp(i), "reset")} ELSE {})
                \cup (IF HasKids(m, i) THEN {ChildM("removeChild", TComp(i), "comp")} ELSE {})
                : i \in DOMAIN m.comps}
\* what equality deliberately ignores: order of children, variable equivalences
NeutralMutations(m) ==
    {ChildM("reverse", TModel, "units"), ChildM("reverse", TModel, "comp")}
    \cup {ChildM("reverse", TUnits(i), "unit") : i \in {k \in DOMAIN m.units : Len(m.units[k].kids) > 1}}
    \cup UNION {{ChildM("reverse", TComp(i), "var")} \cup (IF Len(m.comps[i].resets) > 1 THEN {ChildM("reverse", TComp(i), "reset")} ELSE {})
                : i \in {k \in DOMAIN m.comps : Len(m.comps[k].vars) > 1}}
    \cup {[op |-> "addEquiv", t |-> TVar(1, 3), c1 |-> 0, v1 |-> 2, c2 |-> 1, v2 |-> 1]}
    \cup (IF Len(m.conns) > 0 THEN {[op |-> "removeEquiv", t |-> TVar(1, 1), c1 |-> 0, v1 |-> 0, c2 |-> 1, v2 |-> 0]} ELSE {})
Mutations(m) == SetMutations(m) \cup ChildMutations(m) \cup NeutralMutations(m)
Covered(mut) == mut.op \in {"set", "addChild", "removeChild"}

AllTrue(ps) == \A i \in DOMAIN ps : ps[i].ab /\ ps[i].ba
AllFalse(ps) == \A i \in DOMAIN ps : ~ps[i].ab /\ ~ps[i].ba
=============================================================================
