SPECIFICATION Spec
CONSTANTS What = "equality"
 Scope = "thorough"
INVARIANT Emit
CHECK_DEADLOCK FALSE
