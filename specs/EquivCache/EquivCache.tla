----------------------------- MODULE EquivCache -----------------------------
(* C18: variable-equivalence queries against the connection graph.             *)
(*  Ref : the answer to a query is reachability in the graph of equivalences   *)
(*        (areEquivalentVariables also when both arguments are one variable),  *)
(*        whatever the order and repetition of the queries.                    *)
(*  Mech: AnalyserModel::areEquivalentVariables memoises answers under a key   *)
(*        computed from the two object addresses: Cantor pairing evaluated in  *)
(*        64-bit arithmetic.  Key64 is that computation on 8-bit limbs (TLC    *)
(*        integers are 32-bit); it is not injective.                           *)
EXTENDS Naturals, Sequences, FiniteSets

\* ---------------------------------------------------------------- Ref: closure of a set of edges over 1..n
RECURSIVE ReachFrom(_, _, _)
ReachFrom(S, edges, k) ==
    IF k = 0 THEN S
    ELSE ReachFrom(S \cup {e[2] : e \in {d \in edges : d[1] \in S}} \cup {e[1] : e \in {d \in edges : d[2] \in S}}, edges, k - 1)
Linked(edges, n, a, b) == b \in ReachFrom({a}, edges, n)
AnswerVar(edges, n, a, b) == a # b /\ Linked(edges, n, a, b)        \* hasEquivalentVariable(v, true): a chain of equivalences
AnswerAM(edges, n, a, b) == Linked(edges, n, a, b)                   \* areEquivalentVariables: also the same variable

\* ---------------------------------------------------------------- Mech: 64-bit words as 8 limbs, least significant first
Limbs == 1..8
Zero64 == [i \in Limbs |-> 0]
One64 == [i \in Limbs |-> IF i = 1 THEN 1 ELSE 0]
RECURSIVE AddC(_, _, _, _)
AddC(a, b, i, carry) ==      \* limbs i..8 of a + b + carry, as a sequence
    IF i > 8 THEN <<>>
    ELSE LET s == a[i] + b[i] + carry IN <<s % 256>> \o AddC(a, b, i + 1, s \div 256)
Add64(a, b) == AddC(a, b, 1, 0)
\* schoolbook product, low 64 bits: column sums stay below 2^20
Col(a, b, k) == LET idx == {i \in Limbs : k - i + 1 \in Limbs} IN
                LET f[S \in SUBSET idx] == IF S = {} THEN 0 ELSE LET x == CHOOSE y \in S : TRUE IN a[x] * b[k - x + 1] + f[S \ {x}] IN f[idx]
RECURSIVE MulC(_, _, _, _)
MulC(a, b, k, carry) ==
    IF k > 8 THEN <<>>
    ELSE LET s == Col(a, b, k) + carry IN <<s % 256>> \o MulC(a, b, k + 1, s \div 256)
Mul64(a, b) == MulC(a, b, 1, 0)
Shr1(a) == [i \in Limbs |-> (a[i] \div 2) + (IF i < 8 THEN (a[i + 1] % 2) * 128 ELSE 0)]
RECURSIVE LessFrom(_, _, _)
LessFrom(a, b, i) == IF i = 0 THEN FALSE ELSE IF a[i] # b[i] THEN a[i] < b[i] ELSE LessFrom(a, b, i - 1)
Less64(a, b) == LessFrom(a, b, 8)
Key64(v1, v2) == LET lo == IF Less64(v2, v1) THEN v2 ELSE v1
                     hi == IF Less64(v2, v1) THEN v1 ELSE v2
                     s == Add64(lo, hi)
                 IN Add64(Shr1(Mul64(s, Add64(s, One64))), hi)
Collide(q) == <<q[1], q[2]>> # <<q[3], q[4]>> /\ Key64(q[1], q[2]) = Key64(q[3], q[4])
=============================================================================
