SPECIFICATION Spec
CONSTANTS N = 4
 L = 2
INVARIANTS MemoSound Symmetric Predicted Emit EmitEdits
CHECK_DEADLOCK FALSE
