--------------------------- MODULE Trace_EquivCache ---------------------------
EXTENDS EquivCache, TraceIO, KnownFindings
VARIABLE l
Init == l = 1
Expected(ev, q) == LET E == {<<ev.edges[i][1] + 1, ev.edges[i][2] + 1>> : i \in DOMAIN ev.edges} IN
                   IF q[1] = "am" THEN AnswerAM(E, ev.n, q[2] + 1, q[3] + 1) ELSE AnswerVar(E, ev.n, q[2] + 1, q[3] + 1)
Problems(ev) ==
    (IF \A i \in DOMAIN ev.queries : ev.answers[i] = Expected(ev, ev.queries[i]) THEN {} ELSE {"equivalence query disagrees with the connection graph"})
    \cup (IF ev.kind = "collision" /\ ~ev.placed THEN {"harness: could not place the variables at the chosen addresses"} ELSE {})
    \cup (IF ev.kind = "collision" /\ ev.fam = "cantor" /\ ~Collide(ev.limbs) THEN {"harness: the address quadruple does not collide under Key64"} ELSE {})
Next == /\ l <= Len(TraceLog) /\ l' = l + 1
        /\ LET ev == TraceLog[l] IN
           IF ev.e = "Reset" THEN TRUE
           ELSE IF ev.e # "queries" THEN Verdict("bad", l, ev.sc, ev.e)
           ELSE IF Problems(ev) = {} THEN TRUE
           ELSE Verdict("bad", l, ev.sc, <<Problems(ev), ev.kind, ev.edges, ev.queries, ev.answers>>)
Spec == Init /\ [][Next]_l
Accepted == LET d == TLCGet("stats").diameter IN PrintT(<<"DEPTH", d>>) /\ d - 1 = Len(TraceLog)
=============================================================================
