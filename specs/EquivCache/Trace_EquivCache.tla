--------------------------- MODULE Trace_EquivCache ---------------------------
EXTENDS EquivCache, TraceIO, KnownFindings
VARIABLE l
Init == l = 1
\* the graph at item i of the history: the initial edges, then every "cut" / "join" before i
Norm(a, b) == IF a <= b THEN <<a + 1, b + 1>> ELSE <<b + 1, a + 1>>
RECURSIVE EdgesAt(_, _)
EdgesAt(ev, i) == IF i = 1 THEN {Norm(ev.edges[k][1], ev.edges[k][2]) : k \in DOMAIN ev.edges}
                  ELSE LET q == ev.queries[i - 1] E == EdgesAt(ev, i - 1) IN
                       IF q[1] = "cut" THEN E \ {Norm(q[2], q[3])} ELSE IF q[1] = "join" THEN E \cup {Norm(q[2], q[3])} ELSE E
Expected(ev, i) == LET q == ev.queries[i] E == EdgesAt(ev, i) IN
                   IF q[1] \in {"cut", "join"} THEN TRUE        \* the edit itself succeeds
                   ELSE IF q[1] = "am" THEN AnswerAM(E, ev.n, q[2] + 1, q[3] + 1) ELSE AnswerVar(E, ev.n, q[2] + 1, q[3] + 1)
Problems(ev) ==
    (IF \A i \in DOMAIN ev.queries : ev.answers[i] = Expected(ev, i) THEN {} ELSE {"equivalence query disagrees with the connection graph"})
    \cup (IF ev.kind = "collision" /\ ~ev.placed THEN {"harness: could not place the variables at the chosen addresses"} ELSE {})
    \cup (IF ev.kind = "collision" /\ ev.fam = "cantor" /\ ~Collide(ev.limbs) THEN {"harness: the address quadruple does not collide under Key64"} ELSE {})
Next == /\ l <= Len(TraceLog) /\ l' = l + 1
        /\ LET ev == TraceLog[l] IN
           IF ev.e = "Reset" THEN TRUE
           ELSE IF ev.e # "queries" THEN Verdict("bad", l, ev.sc, ev.e)
           ELSE IF Problems(ev) = {} THEN TRUE
           ELSE Verdict("bad", l, ev.sc, <<Problems(ev), ev.kind, ev.edges, ev.queries, ev.answers>>)
Spec == Init /\ [][Next]_l
Accepted == LET d == TLCGet("stats").diameter IN PrintT(<<"DEPTH", d>>) /\ d - 1 = Len(TraceLog)
=============================================================================
