SPECIFICATION Spec
CONSTANTS N = 3
 L = 2
INVARIANTS MemoSound Symmetric Predicted Emit EmitEdits
CHECK_DEADLOCK FALSE
