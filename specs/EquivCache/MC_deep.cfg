SPECIFICATION Spec
CONSTANTS N = 5
 L = 2
INVARIANTS MemoSound Symmetric Predicted Emit
CHECK_DEADLOCK FALSE
