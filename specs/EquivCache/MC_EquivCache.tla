---------------------------- MODULE MC_EquivCache ----------------------------
(* (1) all connection graphs on N variables x all query sequences of length L: *)
(*     a memo keyed on the (unordered) pair of variables never changes an       *)
(*     answer - the design the repair uses;                                     *)
(* (2) every quadruple of the committed family collides under Key64: the       *)
(*     predicted defect of the address-keyed memo;                              *)
(* (3) the graphs and query sequences as scenarios.                             *)
EXTENDS EquivCache, TraceIO, SequencesExt
CONSTANTS N, L
Family == JsonDeserialize(IOEnv.COLLISIONS)
Pairs == {<<i, j>> : i, j \in 1..N}
Edges == {p \in Pairs : p[1] < p[2]}
VARIABLES edges, memo, qs
Init == edges \in SUBSET Edges /\ memo = <<>> /\ qs = <<>>
PairKey(a, b) == IF a <= b THEN <<a, b>> ELSE <<b, a>>
Next == Len(qs) < L /\ \E a, b \in 1..N :
           /\ qs' = Append(qs, <<"am", a - 1, b - 1>>)
           /\ memo' = IF PairKey(a, b) \in DOMAIN memo THEN memo ELSE (PairKey(a, b) :> AnswerAM(edges, N, a, b)) @@ memo
           /\ UNCHANGED edges
Spec == Init /\ [][Next]_<<edges, memo, qs>>
MemoSound == \A k \in DOMAIN memo : memo[k] = AnswerAM(edges, N, k[1], k[2])
Symmetric == \A a, b \in 1..N : AnswerAM(edges, N, a, b) = AnswerAM(edges, N, b, a)
Predicted == qs = <<>> => \A i \in DOMAIN Family : Family[i].fam = "cantor" => Collide(Family[i].limbs)
\* the same graph with the first and the last variable living in one component (no edge joins them directly: a connection
\* links two different components, but they may well be linked through the others)
SharedHome == <<1, N>> \notin edges /\ <<N, 1>> \notin edges
\* histories with edits: every ordered pair is asked, one edge is removed, every pair is asked again in the opposite order,
\* an edge that was not there is added, asked, removed again, asked: the answers follow the graph of the moment
\* (items <<"cut", a, b>> / <<"join", a, b>> change the graph; an analyser model taken before an edit is not asked after it)
AllVarQ(desc) == LET ps == SetToSeq({p \in Pairs : p[1] # p[2]}) IN
                 [i \in DOMAIN ps |-> LET p == ps[IF desc THEN Len(ps) + 1 - i ELSE i] IN <<"var", p[1] - 1, p[2] - 1>>]
EditHistory(e) == LET non == Edges \ edges
                      f == IF non = {} THEN e ELSE CHOOSE x \in non : \A y \in non : x[1] < y[1] \/ (x[1] = y[1] /\ x[2] <= y[2])
                  IN AllVarQ(FALSE) \o <<<<"cut", e[1] - 1, e[2] - 1>>>> \o AllVarQ(TRUE) \o <<<<"join", f[1] - 1, f[2] - 1>>>> \o AllVarQ(FALSE)
                     \o <<<<"cut", f[1] - 1, f[2] - 1>>>> \o AllVarQ(TRUE)
EmitEdits == qs = <<>> => \A e \in edges : EmitScenario([kind |-> "graph", n |-> N, edges |-> SetToSeq({<<x[1] - 1, x[2] - 1>> : x \in edges}), queries |-> EditHistory(e)])
Emit == Len(qs) = L =>
        /\ EmitScenario([kind |-> "graph", n |-> N, edges |-> SetToSeq({<<e[1] - 1, e[2] - 1>> : e \in edges}), queries |-> qs \o [i \in DOMAIN qs |-> <<"var", qs[i][2], qs[i][3]>>]])
        /\ SharedHome => EmitScenario([kind |-> "graph", n |-> N, homes |-> [i \in 1..N |-> IF i = N THEN 0 ELSE i - 1],
                                       edges |-> SetToSeq({<<e[1] - 1, e[2] - 1>> : e \in edges}), queries |-> qs \o [i \in DOMAIN qs |-> <<"var", qs[i][2], qs[i][3]>>]])
=============================================================================
