SPECIFICATION MCSpec
CONSTANTS
 Models = {}
 Comps = {"c1", "c2"}
 Vars = {}
 Unitss = {}
 Resets = {"r1", "r2"}
 NameOf <- NameOfD
 MaxHist = 12
 BadArgs = FALSE
VIEW StateView
INVARIANTS OwnershipInv
PROPERTIES BadArgFrame
CHECK_DEADLOCK FALSE
