SPECIFICATION TSpec
CONSTANTS
 Models = {"m1", "m2"}
 Comps = {"c1", "c2", "c3"}
 Vars = {"v1", "v2", "v3"}
 Unitss = {"u1", "u2", "u3"}
 Resets = {"r1", "r2"}
 NameOf <- NameOfNameless
 Tolerant = FALSE
INVARIANTS Inv
POSTCONDITION Accepted
CHECK_DEADLOCK FALSE
