--------------------------- MODULE MC_ObjectModel ---------------------------
(* Exhaustive exploration of the ObjectModel reference over a small universe,   *)
(* and scenario generation: one BFS-shortest history per (post-state, command,  *)
(* result) - i.e. every edge of the reachable graph - via the hist/VIEW idiom.  *)
EXTENDS ObjectModel, TraceIO
CONSTANTS MaxHist,       \* generation: stop extending histories beyond this length
          BadArgs        \* include null pointers, one-past-the-end indices and unknown names in the alphabet

SeqOfSet(S) == CHOOSE q \in [1..Cardinality(S) -> S] : {q[i] : i \in DOMAIN q} = S
NamelessOnes == {x \in DOMAIN NameOf : NameOf[x] = ""}
Names == {NameOf[x] : x \in DOMAIN NameOf} \cup (IF BadArgs THEN {"zz"} ELSE {})
Top(k) == IF BadArgs THEN Cardinality(OfKind(k)) ELSE Cardinality(OfKind(k)) - 1
OrNone(S) == IF BadArgs THEN S \cup {None} ELSE S
Cmds ==
    UNION {
      UNION {{[e |-> "add", k |-> k, p |-> p, x |-> x] : x \in OrNone(OfKind(k))}
             \cup {[e |-> op, k |-> k, p |-> p, i |-> i] : op \in {"removeIdx", "takeIdx"}, i \in 0..Top(k)}
             \cup {[e |-> "removePtr", k |-> k, p |-> p, x |-> x, deep |-> d] : x \in OrNone(OfKind(k)), d \in (IF k = "comp" THEN BOOLEAN ELSE {FALSE})}
             \cup {[e |-> "removeAll", k |-> k, p |-> p]}
             \cup (IF k = "reset" THEN {} ELSE
                   {[e |-> op, k |-> k, p |-> p, n |-> n, deep |-> d] : op \in {"removeName", "takeName"}, n \in Names, d \in (IF k = "comp" THEN BOOLEAN ELSE {FALSE})})
             \cup (IF k \notin {"comp", "units"} THEN {} ELSE
                   {[e |-> "replaceIdx", k |-> k, p |-> p, i |-> i, y |-> y] : i \in 0..Top(k), y \in OrNone(OfKind(k))}
                   \cup {[e |-> "replaceName", k |-> k, p |-> p, n |-> n, y |-> y, deep |-> d] : n \in Names, y \in OrNone(OfKind(k)), d \in (IF k = "comp" THEN BOOLEAN ELSE {FALSE})}
                   \cup {[e |-> "replacePtr", k |-> k, p |-> p, x |-> x, y |-> y, deep |-> d] : x \in OrNone(OfKind(k)), y \in OrNone(OfKind(k)), d \in (IF k = "comp" THEN BOOLEAN ELSE {FALSE})})
             : p \in {q \in Containers : HoldsKind(q, k)}}
      : k \in {kk \in Kinds : OfKind(kk) # {}}}
    \cup {[e |-> op, x |-> v, y |-> w] : op \in {"addEquiv", "removeEquiv"}, v \in OrNone(Vars), w \in OrNone(Vars)}
    \cup {[e |-> "removeAllEquiv", x |-> v] : v \in Vars}
    \cup {[e |-> "release", x |-> x] : x \in Entities}
    \cup (IF NamelessOnes = {} THEN {} ELSE {[e |-> "clean", p |-> m] : m \in Models})
Results == {Yes, No} \cup Entities \cup {None}

VARIABLES hist, last
Enabled(c) == Callable(c) /\ ~Excluded(c)
MCInit == Init /\ hist = <<>> /\ last = [e |-> "init"]
\* Every distinct state is expanded exactly once (VIEW StateView) with its BFS-shortest history; in generation
\* mode (env OUT set) each enabled command is emitted as the scenario "history of the state, then the command":
\* one scenario per edge of the reachable graph at the cost of one pass over it.
MCNext == \E c \in Cmds : Enabled(c) /\
             /\ Apply(c)
             /\ last' = c
             /\ hist' = Append(hist, c)
             \* (random walks, tlc -simulate with WALK set: only the complete walk of MaxHist commands is emitted)
             /\ ("OUT" \in DOMAIN IOEnv /\ (IF "WALK" \in DOMAIN IOEnv THEN Len(hist) + 1 = MaxHist ELSE Len(hist) <= MaxHist)) => EmitScenario(IF NamelessOnes = {} THEN [cmds |-> hist'] ELSE [cmds |-> hist', nameless |-> SeqOfSet(NamelessOnes)])
MCSpec == MCInit /\ [][MCNext]_<<vars, ret, hist, last>>
StateView == <<vars>>

\* refused calls change nothing (bad-argument frame condition), as an action property
BadArgFrame == [][ret' \in {No, None} => UNCHANGED vars]_<<vars, ret, last>>

NameOfA == [x \in {"c1", "c2", "c3"} |-> IF x = "c3" THEN "b" ELSE "a"]
NameOfB == [x \in {"c1", "c2", "v1", "v2", "v3"} |-> IF x \in {"c2", "v3"} THEN "b" ELSE "a"]
NameOfBq == [x \in {"c1", "c2", "v1", "v2"} |-> IF x = "c2" THEN "b" ELSE "a"]
NameOfC == [x \in {"u1", "u2", "u3"} |-> IF x = "u3" THEN "b" ELSE "a"]
NameOfD == [x \in {"c1", "c2"} |-> IF x = "c2" THEN "b" ELSE "a"]
NameOfF1 == [x \in {"c1", "c2", "c3"} |-> IF x \in {"c2", "c3"} THEN "" ELSE "a"]
NameOfF2 == [x \in {"c1", "c2", "v1", "u2"} |-> IF x \in {"c2", "u2"} THEN "" ELSE "a"]
NameOfAll == [x \in {"c1", "c2", "c3", "v1", "v2", "v3", "u1", "u2", "u3"} |-> IF x \in {"c3", "v3", "u3"} THEN "b" ELSE "a"]
=============================================================================
