SPECIFICATION MCSpec
CONSTANTS
 Models = {"m1"}
 Comps = {"c1", "c2"}
 Vars = {"v1"}
 Unitss = {"u2"}
 Resets = {}
 NameOf <- NameOfF2
 MaxHist = 12
 BadArgs = FALSE
VIEW StateView
INVARIANTS OwnershipInv
PROPERTIES BadArgFrame
CHECK_DEADLOCK FALSE
