---------------------------- MODULE ObjectModel ----------------------------
(* C09: the ownership state machine of libCellML's object model.               *)
(*                                                                             *)
(* Abstract state (not structs): per container the ordered child lists of the  *)
(* four kinds, the parent each entity reports, variable equivalence, and the   *)
(* handles the user still holds (an entity nobody holds and no live container  *)
(* lists is destroyed).  One action per public entry point; the linearisation  *)
(* point of this sequential library is the return of the call.                 *)
EXTENDS Naturals, Sequences, FiniteSets, TLC

CONSTANTS Models, Comps, Vars, Unitss, Resets,   \* disjoint sets of entity names (strings)
          NameOf                                  \* [Comps \cup Vars \cup Unitss -> name]; two entities with the same name are look-alikes

None == "none"
Yes == "ok"     \* results are strings: "ok" / "no" for booleans, an entity name or "none" for pointers
No == "no"
Kinds == {"comp", "var", "reset", "units"}
Entities == Models \cup Comps \cup Vars \cup Unitss \cup Resets
Containers == Models \cup Comps
OfKind(k) == CASE k = "comp" -> Comps [] k = "var" -> Vars [] k = "reset" -> Resets [] k = "units" -> Unitss
HoldsKind(p, k) == \/ k = "comp" /\ p \in Containers
                   \/ k \in {"var", "reset"} /\ p \in Comps
                   \/ k = "units" /\ p \in Models

VARIABLES lists,   \* [Kinds -> [Containers -> Seq(Entities)]]   mComponents / mVariables / mResets / mUnits
          parent,  \* [Entities -> Containers \cup {None}]       what parent() returns
          equiv,   \* [Vars -> SUBSET Vars]                      what equivalentVariable(i) enumerates
          held,    \* SUBSET Entities                            handles still held by the user
          ret      \* what the last call returned
vars == <<lists, parent, equiv, held>>

Member(s, e) == \E i \in DOMAIN s : s[i] = e
SeqRange(s) == {s[i] : i \in DOMAIN s}
RmAt(s, i) == SubSeq(s, 1, i - 1) \o SubSeq(s, i + 1, Len(s))
IdxOf(s, e) == CHOOSE i \in DOMAIN s : s[i] = e
Without(s, e) == SelectSeq(s, LAMBDA y : y # e)
SameName(a, b) == IF a \in DOMAIN NameOf /\ b \in DOMAIN NameOf THEN NameOf[a] = NameOf[b] ELSE TRUE

\* ------------------------------------------------------------------ liveness of objects
RECURSIVE AliveFrom(_, _)
AliveFrom(S, L) ==
    LET T == S \cup UNION {SeqRange(L[k][p]) : k \in Kinds, p \in S \cap Containers}
    IN IF T = S THEN S ELSE AliveFrom(T, L)
\* in a state left by Commit that satisfies the ownership invariants, this is AliveFrom(held, lists)
Alive == held \cup {e \in Entities : parent[e] # None}

\* ------------------------------------------------------------------ hierarchy
RECURSIVE AncestorsUpTo(_, _)
AncestorsUpTo(x, n) == IF n = 0 \/ parent[x] = None THEN {}
                       ELSE {parent[x]} \cup AncestorsUpTo(parent[x], n - 1)
Ancestors(x) == AncestorsUpTo(x, Cardinality(Containers) + 1)
Descendants(p) == {c \in Comps : p \in Ancestors(c)}
WouldCycle(p, x) == p \in Comps /\ (x = p \/ x \in Ancestors(p))

Detach(L, x) == [k \in Kinds |-> [p \in Containers |-> Without(L[k][p], x)]]

\* ------------------------------------------------------------------ initial state: everything fresh, all handles held
Init == /\ lists = [k \in Kinds |-> [p \in Containers |-> <<>>]]
        /\ parent = [e \in Entities |-> None]
        /\ equiv = [v \in Vars |-> {}]
        /\ held = Entities
        /\ ret = None

Unchanged == UNCHANGED vars

\* Every call ends with destruction of whatever is no longer referenced: an entity that no handle and no
\* live container keeps alive is gone - its lists vanish, its children observe parent() = null, and it
\* drops out of every equivalence list.
Commit(L, P, E, H) ==
    LET A == AliveFrom(H, L) IN
    /\ lists' = [k \in Kinds |-> [p \in Containers |-> IF p \in A THEN L[k][p] ELSE <<>>]]
    /\ parent' = [e \in Entities |-> IF e \in A /\ P[e] \in A THEN P[e] ELSE None]
    /\ equiv' = [v \in Vars |-> IF v \in A THEN E[v] \cap A ELSE {}]
    /\ held' = H
Refused(r0) == ret' = r0 /\ Unchanged

\* ------------------------------------------------------------------ add  (addComponent / addVariable / addReset / addUnits)
\* Moves x from wherever it is to the end of p's list.  Self / ancestor insertion is refused.
Add(k, p, x) ==
    LET no == No IN
    IF x = None \/ x \notin OfKind(k) \/ ~HoldsKind(p, k) THEN Refused(no)
    ELSE IF k = "comp" /\ WouldCycle(p, x) THEN Refused(no)
    ELSE /\ Commit([Detach(lists, x) EXCEPT ![k][p] = Append(@, x)], [parent EXCEPT ![x] = p], equiv, held)
         /\ ret' = Yes

\* remove exactly the child x (x is listed by its parent q)
DropChild(k, x, okres) ==
    LET q == parent[x] IN
    /\ Commit([lists EXCEPT ![k][q] = Without(@, x)], [parent EXCEPT ![x] = None], equiv, held)
    /\ ret' = okres

\* ------------------------------------------------------------------ remove / take by index
RemoveIdx(k, p, i, take) ==
    LET no == IF take THEN None ELSE No IN
    IF ~HoldsKind(p, k) \/ i >= Len(lists[k][p]) THEN Refused(no)
    ELSE LET x == lists[k][p][i + 1] IN DropChild(k, x, IF take THEN x ELSE Yes)

\* children (or, searching the encapsulation hierarchy, descendants) of p with name n
Scope(k, p, deep) == SeqRange(lists[k][p]) \cup (IF deep /\ k = "comp" THEN Descendants(p) ELSE {})
ByName(k, p, n, deep) ==
    LET direct == {x \in SeqRange(lists[k][p]) : NameOf[x] = n}
    IN IF direct # {} THEN direct
       ELSE IF deep /\ k = "comp" THEN {x \in Descendants(p) : NameOf[x] = n} ELSE {}

\* ------------------------------------------------------------------ remove / take by name
RemoveName(k, p, n, deep, take) ==
    LET no == IF take THEN None ELSE No IN
    IF ~HoldsKind(p, k) \/ ByName(k, p, n, deep) = {} THEN Refused(no)
    ELSE \E x \in ByName(k, p, n, deep) : DropChild(k, x, IF take THEN x ELSE Yes)

\* ------------------------------------------------------------------ remove by pointer
\* A (direct) child: exactly that object goes.  Not a child: refused, or matched to a structurally equal
\* child whose own links are then updated (structural equality needs at least the same name).  An object
\* found deeper in the encapsulation hierarchy is not a child of p in the statement's sense: it may be
\* removed itself, or a structurally equal component met earlier in the search may be.
RemovePtr(k, p, x, deep) ==
    LET no == No IN
    IF x = None \/ ~HoldsKind(p, k) \/ x \notin OfKind(k) THEN Refused(no)
    ELSE IF Member(lists[k][p], x) THEN DropChild(k, x, Yes)
    ELSE \/ x \notin Scope(k, p, deep) /\ Refused(no)
         \/ \E d \in Scope(k, p, deep) : SameName(d, x) /\ DropChild(k, d, Yes)

\* ------------------------------------------------------------------ replace (components, units)
ReplaceChild(k, old, new) ==
    LET q == parent[old]
        L1 == Detach(lists, new)
        i == IdxOf(L1[k][q], old)
    IN /\ Commit([L1 EXCEPT ![k][q] = [@ EXCEPT ![i] = new]], [parent EXCEPT ![old] = None, ![new] = q], equiv, held)
       /\ ret' = Yes
ReplaceOk(k, old, new) == new # old /\ ~(k = "comp" /\ WouldCycle(parent[old], new))

ReplaceIdx(k, p, i, new) ==
    LET no == No IN
    IF new = None \/ new \notin OfKind(k) \/ ~HoldsKind(p, k) \/ i >= Len(lists[k][p]) THEN Refused(no)
    ELSE LET old == lists[k][p][i + 1] IN
         IF ReplaceOk(k, old, new) THEN ReplaceChild(k, old, new) ELSE Refused(no)
ReplaceName(k, p, n, new, deep) ==
    LET no == No IN
    IF new = None \/ new \notin OfKind(k) \/ ~HoldsKind(p, k) \/ ByName(k, p, n, deep) = {} THEN Refused(no)
    ELSE \E old \in ByName(k, p, n, deep) :
             IF ReplaceOk(k, old, new) THEN ReplaceChild(k, old, new) ELSE Refused(no)
ReplacePtr(k, p, old, new, deep) ==
    LET no == No IN
    IF new = None \/ old = None \/ new \notin OfKind(k) \/ old \notin OfKind(k) \/ ~HoldsKind(p, k) THEN Refused(no)
    ELSE IF Member(lists[k][p], old)
         THEN IF ReplaceOk(k, old, new) THEN ReplaceChild(k, old, new) ELSE Refused(no)
         ELSE \/ Refused(no) /\ (old \in Scope(k, p, deep) => \E d \in Scope(k, p, deep) : SameName(d, old) /\ ~ReplaceOk(k, d, new))
              \/ \E d \in Scope(k, p, deep) : SameName(d, old) /\ ReplaceOk(k, d, new) /\ ReplaceChild(k, d, new)

\* ------------------------------------------------------------------ removeAll
RemoveAll(k, p) ==
    /\ HoldsKind(p, k)
    /\ Commit([lists EXCEPT ![k][p] = <<>>], [e \in Entities |-> IF Member(lists[k][p], e) THEN None ELSE parent[e]], equiv, held)

\* ------------------------------------------------------------------ equivalences
AddEquiv(v, w) ==
    LET no == No IN
    IF v = None \/ w = None \/ v = w \/ w \in equiv[v] THEN Refused(no)
    ELSE /\ equiv' = [equiv EXCEPT ![v] = @ \cup {w}, ![w] = @ \cup {v}]
         /\ ret' = Yes /\ UNCHANGED <<lists, parent, held>>
RemoveEquiv(v, w) ==
    LET no == No IN
    IF v = None \/ w = None \/ w \notin equiv[v] THEN Refused(no)
    ELSE /\ equiv' = [equiv EXCEPT ![v] = @ \ {w}, ![w] = @ \ {v}]
         /\ ret' = Yes /\ UNCHANGED <<lists, parent, held>>
RemoveAllEquiv(v) ==
    /\ equiv' = [u \in Vars |-> IF u = v THEN {} ELSE equiv[u] \ {v}]
    /\ UNCHANGED <<lists, parent, held>>

\* ------------------------------------------------------------------ Model::clean()
\* Removes, bottom-up, the components of m's hierarchy that are empty - no name, no variable, no reset, no remaining child (the
\* universe gives no entity an id, math or an import source) - and the units of m without a name (universe units have no children).
Nameless(x) == x \in DOMAIN NameOf /\ NameOf[x] = ""
EmptyGiven(S) == {c \in Comps : Nameless(c) /\ lists["var"][c] = <<>> /\ lists["reset"][c] = <<>> /\ SeqRange(lists["comp"][c]) \subseteq S}
RECURSIVE EmptyUpTo(_, _)
EmptyUpTo(S, n) == IF n = 0 THEN S ELSE EmptyUpTo(EmptyGiven(S), n - 1)
Clean(m) ==
    LET gone == (EmptyUpTo({}, Cardinality(Comps)) \cap Descendants(m)) \cup {u \in SeqRange(lists["units"][m]) : Nameless(u)}
        inM(p) == p = m \/ p \in Descendants(m)
    IN /\ m \in Models
       /\ Commit([k \in Kinds |-> [p \in Containers |-> IF inM(p) THEN SelectSeq(lists[k][p], LAMBDA x : x \notin gone) ELSE lists[k][p]]],
                 [e \in Entities |-> IF e \in gone THEN None ELSE parent[e]], equiv, held)

\* ------------------------------------------------------------------ drop a handle
Release(x) ==
    /\ x \in held
    /\ Commit(lists, parent, equiv, held \ {x})

\* ------------------------------------------------------------------ dispatch on a command record (shared by MC, Gen and Trace)
Apply(c) ==
    CASE c.e = "add" -> Add(c.k, c.p, c.x)
      [] c.e = "removeIdx" -> RemoveIdx(c.k, c.p, c.i, FALSE)
      [] c.e = "takeIdx" -> RemoveIdx(c.k, c.p, c.i, TRUE)
      [] c.e = "removeName" -> RemoveName(c.k, c.p, c.n, c.deep, FALSE)
      [] c.e = "takeName" -> RemoveName(c.k, c.p, c.n, c.deep, TRUE)
      [] c.e = "removePtr" -> RemovePtr(c.k, c.p, c.x, c.deep)
      [] c.e = "replaceIdx" -> ReplaceIdx(c.k, c.p, c.i, c.y)
      [] c.e = "replaceName" -> ReplaceName(c.k, c.p, c.n, c.y, c.deep)
      [] c.e = "replacePtr" -> ReplacePtr(c.k, c.p, c.x, c.y, c.deep)
      [] c.e = "removeAll" -> RemoveAll(c.k, c.p) /\ ret' = Yes
      [] c.e = "addEquiv" -> AddEquiv(c.x, c.y)
      [] c.e = "removeEquiv" -> RemoveEquiv(c.x, c.y)
      [] c.e = "removeAllEquiv" -> RemoveAllEquiv(c.x) /\ ret' = Yes
      [] c.e = "release" -> Release(c.x) /\ ret' = Yes
      [] c.e = "clean" -> Clean(c.p) /\ ret' = Yes

\* calls outside the claim (never generated): adding / replacing with an entity its container already lists
Excluded(c) ==
    \/ c.e = "add" /\ c.x # None /\ Member(lists[c.k][c.p], c.x)
    \/ c.e \in {"replaceIdx", "replaceName", "replacePtr"} /\ c.y # None
         /\ \E q \in Containers : Member(lists[c.k][q], c.y) /\ (q = c.p \/ (c.e # "replaceIdx" /\ c.deep /\ q \in Descendants(c.p)))
\* a call is only possible through a handle to a live receiver and live arguments
Callable(c) ==
    /\ ("p" \in DOMAIN c) => c.p \in Alive
    /\ ("x" \in DOMAIN c /\ c.x # None) => (IF c.e = "release" THEN c.x \in held ELSE c.x \in Alive)
    /\ ("y" \in DOMAIN c /\ c.y # None) => c.y \in Alive

\* ------------------------------------------------------------------ the property
ParentInv == \A p \in Alive \cap Containers, k \in Kinds : \A i \in DOMAIN lists[k][p] : parent[lists[k][p][i]] = p
NoDup == \A p \in Containers, k \in Kinds : \A i, j \in DOMAIN lists[k][p] : i # j => lists[k][p][i] # lists[k][p][j]
OneOwner == \A x \in Entities : Cardinality({<<k, p>> \in Kinds \X Containers : Member(lists[k][p], x)}) <= 1
ParentListsChild == \A x \in Entities : parent[x] # None => \E k \in Kinds : Member(lists[k][parent[x]], x)
Acyclic == \A c \in Comps : c \notin Ancestors(c)
EquivSymmetric == \A v, w \in Vars : w \in equiv[v] <=> v \in equiv[w]
NoDeadEquivalents == \A v \in Vars : equiv[v] \subseteq Alive /\ (v \notin Alive => equiv[v] = {})
DeadHaveNothing == \A e \in Entities \ Alive : parent[e] = None /\ (e \in Containers => \A k \in Kinds : lists[k][e] = <<>>)
WellTyped == \A k \in Kinds, p \in Containers : SeqRange(lists[k][p]) \subseteq OfKind(k) /\ (~HoldsKind(p, k) => lists[k][p] = <<>>)
OwnershipInv == /\ ParentInv /\ NoDup /\ OneOwner /\ ParentListsChild /\ Acyclic
                /\ EquivSymmetric /\ NoDeadEquivalents /\ DeadHaveNothing /\ WellTyped
=============================================================================
