---------------------------- MODULE MC_EquivList ----------------------------
(* C09, mechanism level: a variable keeps its equivalent variables in a list of weak references.  A partner that is    *)
(* destroyed leaves a dead entry behind, which is only swept when the list is next modified; what callers observe      *)
(* (equivalentVariable(i), equivalentVariableCount()) skips dead entries.  The abstract ObjectModel cannot tell a list  *)
(* with dead entries from one without, so its one-history-per-state generation never reaches the former.  This module  *)
(* models the list with its dead entries over four parentless variables, checks that what it exposes is the symmetric   *)
(* relation of ObjectModel, and emits one scenario per (state, command) whose source state has a dead entry in the list *)
(* of a variable the command touches.  The scenarios are validated against ObjectModel like all the others.             *)
EXTENDS TraceIO, SequencesExt
CONSTANTS Vs, MaxHist, Star     \* Star: equivalences are only added between v1 and the others
VARIABLES elist,   \* [Vs -> Seq(Vs)]   entries in insertion order, dead ones included
          alive,   \* variables not yet destroyed (a parentless variable lives as long as the caller holds it)
          hist
mvars == <<elist, alive>>
Live(v) == SelectSeq(elist[v], LAMBDA w : w \in alive)
LiveSet(v) == {elist[v][i] : i \in {k \in DOMAIN elist[v] : elist[v][k] \in alive}}
HasDead(v) == \E i \in DOMAIN elist[v] : elist[v][i] \notin alive
Sweep(s) == SelectSeq(s, LAMBDA w : w \in alive)
Init == elist = [v \in Vs |-> <<>>] /\ alive = Vs /\ hist = <<>>
Cmds == {[e |-> op, x |-> v, y |-> w] : op \in {"addEquiv", "removeEquiv"}, v \in Vs, w \in Vs} \cup {[e |-> "removeAllEquiv", x |-> v] : v \in Vs} \cup {[e |-> "release", x |-> v] : v \in Vs}
Callable(c) == c.x \in alive /\ ("y" \in DOMAIN c => c.y \in alive) /\ ((Star /\ c.e = "addEquiv") => "v1" \in {c.x, c.y})
Apply(c) ==
    CASE c.e = "addEquiv" ->
            IF c.x = c.y \/ c.y \in LiveSet(c.x) THEN UNCHANGED mvars
            ELSE elist' = [elist EXCEPT ![c.x] = Append(Sweep(@), c.y), ![c.y] = Append(Sweep(@), c.x)] /\ UNCHANGED alive
      [] c.e = "removeEquiv" ->
            IF c.y \notin LiveSet(c.x) THEN UNCHANGED mvars
            ELSE elist' = [elist EXCEPT ![c.x] = SelectSeq(Sweep(@), LAMBDA w : w # c.y), ![c.y] = SelectSeq(Sweep(@), LAMBDA w : w # c.x)] /\ UNCHANGED alive
      [] c.e = "removeAllEquiv" ->
            elist' = [v \in Vs |-> IF v = c.x THEN <<>> ELSE IF c.x \in LiveSet(v) THEN SelectSeq(Sweep(elist[v]), LAMBDA w : w # c.x) ELSE elist[v]] /\ UNCHANGED alive
      [] c.e = "release" -> alive' = alive \ {c.x} /\ UNCHANGED elist
Touches(c) == {c.x} \cup (IF "y" \in DOMAIN c THEN {c.y} ELSE {}) \cup (IF c.e = "removeAllEquiv" THEN LiveSet(c.x) ELSE {})
Next == \E c \in Cmds : Callable(c) /\
           /\ Apply(c)
           /\ hist' = Append(hist, c)
           /\ (Len(hist) < MaxHist /\ c.e # "release" /\ (\E v \in Touches(c) : HasDead(v))) => EmitScenario([cmds |-> hist', wide |-> TRUE])
Spec == Init /\ [][Next]_<<mvars, hist>>
View == mvars
\* what the lists expose is a symmetric relation over live variables without repetitions (ObjectModel's equiv)
ExposedSymmetric == \A v, w \in alive : (w \in LiveSet(v)) <=> (v \in LiveSet(w))
ExposedNoDuplicates == \A v \in alive : Len(Live(v)) = Cardinality(LiveSet(v))
Bounded == Len(hist) <= MaxHist
=============================================================================
