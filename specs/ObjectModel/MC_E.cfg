SPECIFICATION Spec
CONSTANTS
 Vs = {"v1", "v2", "v3", "v4"}
 MaxHist = 7
 Star = FALSE
VIEW View
INVARIANTS ExposedSymmetric ExposedNoDuplicates
CONSTRAINT Bounded
CHECK_DEADLOCK FALSE
