-------------------------- MODULE Trace_ObjectModel --------------------------
(* Trace validation for C09: every recorded call must be a step of ObjectModel  *)
(* with the recorded result and the recorded (projected) post-state; the        *)
(* ownership invariants are evaluated in every state of every trace.            *)
EXTENDS ObjectModel, TraceIO, KnownFindings
CONSTANT Tolerant   \* FALSE: stop at the first unexplained step (fast); TRUE: report every unexplained step
VARIABLE l, tainted
tvars == <<vars, ret, l, tainted>>

NameOfAll == [x \in {"c1", "c2", "c3", "v1", "v2", "v3", "u1", "u2", "u3"} |-> IF x \in {"c3", "v3", "u3"} THEN "b" ELSE "a"]

NameOfWide == [x \in {"c1", "c2", "c3", "v1", "v2", "v3", "v4", "u1", "u2", "u3"} |-> IF x \in {"c3", "v3", "u3"} THEN "b" ELSE "a"]

NameOfNameless == [x \in {"c1", "c2", "c3", "v1", "v2", "v3", "u1", "u2", "u3"} |-> IF x \in {"c2", "c3", "u2"} THEN "" ELSE IF x \in {"v3", "u3"} THEN "b" ELSE "a"]

TInit == Init /\ l = 1 /\ tainted = FALSE

Ev == TraceLog[l]
NoDupSeq(s) == Cardinality(Range(s)) = Len(s)
\* the projected state the executor logged after the call
Bind(ev) ==
    /\ lists' = ev.st.lists
    /\ parent' = ev.st.parent
    /\ equiv' = [v \in Vars |-> Range(ev.st.equiv[v])]
    /\ \A v \in Vars : NoDupSeq(ev.st.equiv[v])
    /\ held' = Range(ev.st.held)
    /\ ret' = ev.r
    /\ Range(ev.st.alive) = AliveFrom(Range(ev.st.held), ev.st.lists)   \* nothing leaked, nothing destroyed early

Explained(ev) == ev.e = "call" /\ Apply(ev.c) /\ Bind(ev)

\* Known deviations: none recorded for this property (defects found were repaired, see KNOWN_FINDINGS.txt)
Deviation(ev) == FALSE

TReset == /\ Ev.e = "Reset"
          /\ lists' = [k \in Kinds |-> [p \in Containers |-> <<>>]]
          /\ parent' = [e \in Entities |-> None]
          /\ equiv' = [v \in Vars |-> {}]
          /\ held' = Entities /\ ret' = None /\ tainted' = FALSE
Outside(c) == Excluded(c) \/ ~Callable(c)
TStep == /\ Ev.e = "call" /\ ~tainted /\ ~Outside(Ev.c)
         /\ Explained(Ev) /\ UNCHANGED tainted
\* a step the specification cannot explain: report it, adopt the observed state and go on (so that one run
\* lists every unexplained step); crashes and hangs land here too
TUnexplained ==
    /\ Tolerant /\ Ev.e # "Reset" /\ ~tainted /\ ~(Ev.e = "call" /\ Outside(Ev.c))
    /\ ~ENABLED TStep
    /\ Verdict("bad", l, Ev.sc, IF Ev.e = "call" THEN Ev.c ELSE Ev.e)
    /\ IF Ev.e = "call" THEN Bind(Ev) /\ tainted' = ~OwnershipInv' ELSE UNCHANGED <<vars, ret>> /\ tainted' = TRUE
\* A walk is generated along one resolution of the specification's nondeterminism (a by-pointer replacement may or may not match a
\* look-alike); when the library resolves it the other way, a later command of the walk can fall outside the claim in the real state
\* (adding / replacing with an entity its container already lists, an argument that is no longer alive): the rest of that walk is
\* not judged
TOutside == /\ Ev.e = "call" /\ ~tainted /\ Outside(Ev.c)
            /\ tainted' = TRUE /\ UNCHANGED <<vars, ret>>
TSkip == Ev.e # "Reset" /\ tainted /\ UNCHANGED <<vars, ret, tainted>>

TNext == l <= Len(TraceLog) /\ l' = l + 1 /\ (TReset \/ TStep \/ TOutside \/ TUnexplained \/ TSkip)
TSpec == TInit /\ [][TNext]_tvars
Inv == tainted \/ OwnershipInv
Accepted == LET d == TLCGet("stats").diameter IN PrintT(<<"DEPTH", d>>) /\ d - 1 = Len(TraceLog)
=============================================================================
