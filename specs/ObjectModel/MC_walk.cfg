SPECIFICATION MCSpec
CONSTANTS
 Models = {"m1", "m2"}
 Comps = {"c1", "c2", "c3"}
 Vars = {"v1", "v2", "v3"}
 Unitss = {"u1", "u2", "u3"}
 Resets = {"r1", "r2"}
 NameOf <- NameOfAll
 MaxHist = 30
 BadArgs = TRUE
INVARIANTS OwnershipInv
CHECK_DEADLOCK FALSE
