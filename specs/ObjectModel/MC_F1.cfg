SPECIFICATION MCSpec
CONSTANTS
 Models = {"m1"}
 Comps = {"c1", "c2", "c3"}
 Vars = {}
 Unitss = {}
 Resets = {}
 NameOf <- NameOfF1
 MaxHist = 12
 BadArgs = FALSE
VIEW StateView
INVARIANTS OwnershipInv
PROPERTIES BadArgFrame
CHECK_DEADLOCK FALSE
