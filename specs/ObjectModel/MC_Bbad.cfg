SPECIFICATION MCSpec
CONSTANTS
 Models = {}
 Comps = {"c1", "c2"}
 Vars = {"v1", "v2", "v3"}
 Unitss = {}
 Resets = {}
 NameOf <- NameOfB
 MaxHist = 2
 BadArgs = TRUE
VIEW StateView
INVARIANTS OwnershipInv
PROPERTIES BadArgFrame
CHECK_DEADLOCK FALSE
