SPECIFICATION MCSpec
CONSTANTS
 Models = {"m1", "m2"}
 Comps = {}
 Vars = {}
 Unitss = {"u1", "u2", "u3"}
 Resets = {}
 NameOf <- NameOfC
 MaxHist = 2
 BadArgs = TRUE
VIEW StateView
INVARIANTS OwnershipInv
PROPERTIES BadArgFrame
CHECK_DEADLOCK FALSE
