SPECIFICATION MCSpec
CONSTANTS
 Models = {}
 Comps = {"c1", "c2"}
 Vars = {"v1", "v2"}
 Unitss = {}
 Resets = {}
 NameOf <- NameOfBq
 MaxHist = 20
 BadArgs = FALSE
VIEW StateView
INVARIANTS OwnershipInv
PROPERTIES BadArgFrame
CHECK_DEADLOCK FALSE
