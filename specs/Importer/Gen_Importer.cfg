SPECIFICATION Spec
INVARIANTS BaseSat Emit
CHECK_DEADLOCK FALSE
