---------------------------- MODULE Gen_Importer ----------------------------
EXTENDS Importer
CONSTANT Double   \* TRUE: also every pair of (file status / removed entity) faults
VARIABLE sc
Simple(w) == {x \in Faults(w) : x.kind \in {"status", "removeEntity"}}
Doubles(w) == UNION {{[kind |-> "double", first |-> f1, second |-> f2] : f2 \in {y \in Simple(ApplyFault(w, f1)) : y # f1}} : f1 \in Simple(w)}
Init == sc \in UNION {{[world |-> wn, fault |-> flt, strict |-> s, grouped |-> g] : g \in BOOLEAN, flt \in {x \in Faults(Worlds[wn]) : SensibleFault(Worlds[wn], x)} \cup (IF Double THEN Doubles(Worlds[wn]) ELSE {}), s \in BOOLEAN} : wn \in DOMAIN Worlds}
Faulted == IF sc.fault.kind = "double" THEN ApplyFault(ApplyFault(Worlds[sc.world], sc.fault.first), sc.fault.second) ELSE ApplyFault(Worlds[sc.world], sc.fault)
Next == UNCHANGED sc
Spec == Init /\ [][Next]_sc
BaseSat == Satisfiable(Worlds[sc.world])      \* every base world is resolvable (checked for each)
Emit == EmitScenario([world |-> sc.world, fault |-> sc.fault, strict |-> sc.strict, grouped |-> sc.grouped, files |-> Faulted, repaired |-> Worlds[sc.world]])
=============================================================================
