---------------------------- MODULE Gen_Importer ----------------------------
EXTENDS Importer
VARIABLE sc
Init == sc \in UNION {{[world |-> wn, fault |-> flt, strict |-> s] : flt \in {x \in Faults(Worlds[wn]) : SensibleFault(Worlds[wn], x)}, s \in BOOLEAN} : wn \in DOMAIN Worlds}
Next == UNCHANGED sc
Spec == Init /\ [][Next]_sc
BaseSat == Satisfiable(Worlds[sc.world])      \* every base world is resolvable (checked for each)
Emit == EmitScenario([world |-> sc.world, fault |-> sc.fault, strict |-> sc.strict, files |-> ApplyFault(Worlds[sc.world], sc.fault), repaired |-> Worlds[sc.world]])
=============================================================================
