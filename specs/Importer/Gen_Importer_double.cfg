SPECIFICATION Spec
CONSTANT Double = TRUE
INVARIANTS BaseSat Emit
CHECK_DEADLOCK FALSE
