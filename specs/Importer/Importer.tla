------------------------------ MODULE Importer ------------------------------
(* C07 (and the import graphs of C06): files, the entities they define or      *)
(* import, and when the imports of a root model can be satisfied.              *)
(* A world is a function  file name -> [status, units, comps];  "root" is the   *)
(* model handed to Importer::resolveImports (parsed from text, base path = the  *)
(* scratch directory), the other files live on disk.                            *)
EXTENDS Naturals, Sequences, FiniteSets, TraceIO
NoneS == "none"
\* entity definitions
UBase(n) == [name |-> n, kind |-> "base", ref |-> NoneS, file |-> NoneS]
URef(n, r) == [name |-> n, kind |-> "ref", ref |-> r, file |-> NoneS]                 \* child unit referencing units r of the same file
UImp(n, f, r) == [name |-> n, kind |-> "import", ref |-> r, file |-> f]
CLeaf(n, u) == [name |-> n, kind |-> "leaf", units |-> u, units2 |-> NoneS, kids |-> <<>>, file |-> NoneS, ref |-> NoneS]
CLeaf2(n, u, u2) == [name |-> n, kind |-> "leaf", units |-> u, units2 |-> u2, kids |-> <<>>, file |-> NoneS, ref |-> NoneS]     \* two variables     \* one variable with units u ("none": dimensionless)
CParent(n, u, kids) == [name |-> n, kind |-> "leaf", units |-> u, units2 |-> NoneS, kids |-> kids, file |-> NoneS, ref |-> NoneS]
CImp(n, f, r) == [name |-> n, kind |-> "import", units |-> NoneS, units2 |-> NoneS, kids |-> <<>>, file |-> f, ref |-> r]
File(us, cs) == [status |-> "ok", units |-> us, comps |-> cs]
Gone(st) == [status |-> st, units |-> <<>>, comps |-> <<>>]       \* "missing" | "garbage0".."garbage3" | "foreign"

Has(seq, n) == \E i \in DOMAIN seq : seq[i].name = n
Get(seq, n) == seq[CHOOSE i \in DOMAIN seq : seq[i].name = n]
FileOk(w, f) == f \in DOMAIN w /\ w[f].status = "ok"

\* ---------------------------------------------------------------- satisfiability (least fixpoint, path = entities being resolved)
RECURSIVE SatU(_, _, _, _)
RECURSIVE SatC(_, _, _, _)
SatU(w, f, n, path) ==
    /\ <<"u", f, n>> \notin path
    /\ FileOk(w, f) /\ Has(w[f].units, n)
    /\ LET d == Get(w[f].units, n) p == path \cup {<<"u", f, n>>} IN
       CASE d.kind = "base" -> TRUE
         [] d.kind = "ref" -> SatU(w, f, d.ref, p)
         [] d.kind = "import" -> SatU(w, d.file, d.ref, p)
SatC(w, f, n, path) ==
    /\ <<"c", f, n>> \notin path
    /\ FileOk(w, f) /\ Has(w[f].comps, n)
    /\ LET d == Get(w[f].comps, n) p == path \cup {<<"c", f, n>>} IN
       IF d.kind = "import" THEN SatC(w, d.file, d.ref, p)
       ELSE /\ (d.units # NoneS => SatU(w, f, d.units, p))
            /\ (d.units2 # NoneS => SatU(w, f, d.units2, p))
            /\ \A k \in DOMAIN d.kids : SatC(w, f, d.kids[k], p)
Satisfiable(w) ==
    /\ \A i \in DOMAIN w["root"].units : w["root"].units[i].kind = "import" => SatU(w, "root", w["root"].units[i].name, {})
    /\ \A i \in DOMAIN w["root"].comps : SatC(w, "root", w["root"].comps[i].name, {})
HasImports(w) == \/ \E i \in DOMAIN w["root"].units : w["root"].units[i].kind = "import"
                 \/ \E i \in DOMAIN w["root"].comps : w["root"].comps[i].kind = "import"

\* ---------------------------------------------------------------- base worlds (all satisfiable)
Root(us, cs) == File(us, cs)
Worlds ==
    [chainU1 |-> [root |-> Root(<<UImp("iu", "f1", "u")>>, <<CLeaf("main", "iu")>>), f1 |-> File(<<UBase("u")>>, <<>>)],
     chainU2 |-> [root |-> Root(<<UImp("iu", "f1", "u")>>, <<CLeaf("main", "iu")>>), f1 |-> File(<<UImp("u", "f2", "v")>>, <<>>), f2 |-> File(<<URef("v", "w"), UBase("w")>>, <<>>)],
     chainU3 |-> [root |-> Root(<<UImp("iu", "f1", "u")>>, <<>>), f1 |-> File(<<UImp("u", "f2", "v")>>, <<>>), f2 |-> File(<<UImp("v", "f3", "w")>>, <<>>), f3 |-> File(<<UBase("w")>>, <<>>)],
     chainC1 |-> [root |-> Root(<<>>, <<CImp("ic", "f1", "c")>>), f1 |-> File(<<>>, <<CLeaf("c", NoneS)>>)],
     chainC2 |-> [root |-> Root(<<>>, <<CImp("ic", "f1", "c"), CLeaf("main", NoneS)>>), f1 |-> File(<<>>, <<CImp("c", "f2", "d")>>), f2 |-> File(<<UBase("w")>>, <<CLeaf("d", "w")>>)],
     chainC3 |-> [root |-> Root(<<>>, <<CImp("ic", "f1", "c")>>), f1 |-> File(<<>>, <<CImp("c", "f2", "d")>>), f2 |-> File(<<>>, <<CImp("d", "f3", "e")>>), f3 |-> File(<<>>, <<CLeaf("e", NoneS)>>)],
     compUnits |-> [root |-> Root(<<>>, <<CImp("ic", "f1", "c")>>), f1 |-> File(<<UImp("uu", "f2", "v")>>, <<CLeaf("c", "uu")>>), f2 |-> File(<<UBase("v")>>, <<>>)],
     compKids |-> [root |-> Root(<<>>, <<CImp("ic", "f1", "c")>>), f1 |-> File(<<>>, <<CParent("c", NoneS, <<"k">>), CImp("k", "f2", "d")>>), f2 |-> File(<<>>, <<CLeaf("d", NoneS)>>)],
     unitsRef |-> [root |-> Root(<<UImp("iu", "f1", "u")>>, <<>>), f1 |-> File(<<URef("u", "v"), UImp("v", "f2", "w")>>, <<>>), f2 |-> File(<<UBase("w")>>, <<>>)],
     both |-> [root |-> Root(<<UImp("iu", "f2", "w")>>, <<CImp("ic", "f1", "c"), CLeaf("main", "iu")>>), f1 |-> File(<<>>, <<CLeaf("c", NoneS)>>), f2 |-> File(<<UBase("w")>>, <<>>)],
     diamond |-> [root |-> Root(<<>>, <<CImp("i1", "f1", "c"), CImp("i2", "f2", "c")>>), f1 |-> File(<<>>, <<CImp("c", "f3", "e")>>), f2 |-> File(<<>>, <<CImp("c", "f3", "e")>>), f3 |-> File(<<>>, <<CLeaf("e", NoneS)>>)],
     \* a component whose two variables use two imported units, one of them re-exported through a further file
     twoUnits |-> [root |-> Root(<<>>, <<CImp("ic", "f1", "c")>>), f1 |-> File(<<UImp("u1", "f2", "a"), UImp("u2", "f2", "b")>>, <<CLeaf2("c", "u1", "u2")>>),
                   f2 |-> File(<<UImp("a", "f3", "w"), UBase("b")>>, <<>>), f3 |-> File(<<UBase("w")>>, <<>>)],
     twoUnitsRev |-> [root |-> Root(<<>>, <<CImp("ic", "f1", "c")>>), f1 |-> File(<<UImp("u1", "f2", "b"), UImp("u2", "f2", "a")>>, <<CLeaf2("c", "u1", "u2")>>),
                      f2 |-> File(<<UImp("a", "f3", "w"), UBase("b")>>, <<>>), f3 |-> File(<<UBase("w")>>, <<>>)],
     \* two components imported from one file (written as one import element when the scenario groups them): the second one needs units
     \* that its file imports from a third one
     sharedSource |-> [root |-> Root(<<>>, <<CImp("i1", "f1", "a"), CImp("i2", "f1", "b")>>), f1 |-> File(<<UImp("uu", "f2", "v")>>, <<CLeaf("a", NoneS), CLeaf("b", "uu")>>), f2 |-> File(<<UBase("v")>>, <<>>)],
     \* a chain whose far end needs imported units (repair and retry re-enters through links left by the first attempt)
     chainUnits |-> [root |-> Root(<<>>, <<CImp("ic", "f1", "c")>>), f1 |-> File(<<>>, <<CImp("c", "f2", "y")>>), f2 |-> File(<<UImp("uu", "f3", "v")>>, <<CLeaf("y", "uu")>>), f3 |-> File(<<UBase("v")>>, <<>>)],
     twice |-> [root |-> Root(<<UImp("u1", "f1", "u"), UImp("u2", "f1", "u")>>, <<CImp("i1", "f1", "c"), CImp("i2", "f1", "c")>>), f1 |-> File(<<UBase("u")>>, <<CLeaf("c", "u")>>)]]

\* ---------------------------------------------------------------- single faults
FilesOf(w) == DOMAIN w \ {"root"}
ImportTargets(w) ==      \* (file, kind, name) that some import refers to
    UNION {{<<w[f].units[i].file, "u", w[f].units[i].ref>> : i \in {k \in DOMAIN w[f].units : w[f].units[k].kind = "import"}}
           \cup {<<w[f].comps[i].file, "c", w[f].comps[i].ref>> : i \in {k \in DOMAIN w[f].comps : w[f].comps[k].kind = "import"}} : f \in DOMAIN w}
Without(seq, n) == SelectSeq(seq, LAMBDA d : d.name # n)
Replace(seq, n, d) == [i \in DOMAIN seq |-> IF seq[i].name = n THEN d ELSE seq[i]]
Faults(w) ==
    {[kind |-> "none"]}
    \cup {[kind |-> "status", file |-> f, status |-> s] : f \in FilesOf(w), s \in {"missing", "garbage0", "garbage1", "garbage2", "garbage3", "foreign"}}
    \cup {[kind |-> "removeEntity", file |-> t[1], what |-> t[2], name |-> t[3]] : t \in {x \in ImportTargets(w) : x[1] \in FilesOf(w)}}
    \* back edges: an import target that is itself (transitively) needed is made to import from the first file again
    \cup {[kind |-> "backEdge", file |-> t[1], what |-> t[2], name |-> t[3], toFile |-> g[1], toName |-> g[3]] :
            t \in {x \in ImportTargets(w) : x[1] \in FilesOf(w)}, g \in {x \in ImportTargets(w) : x[1] \in FilesOf(w)} \cup {<<"f1", "u", "u">>} }
    \cup {[kind |-> "localUnitsCycle", file |-> f] : f \in FilesOf(w)}
    \* a cycle of ordinary (not imported) units that the imported entity depends on
    \cup {[kind |-> "reachedUnitsCycle", file |-> t[1], what |-> t[2], name |-> t[3]] : t \in {x \in ImportTargets(w) : x[1] \in FilesOf(w)}}
ApplyFault(w, flt) ==
    CASE flt.kind = "none" -> w
      [] flt.kind = "status" -> [w EXCEPT ![flt.file] = Gone(flt.status)]
      [] flt.kind = "removeEntity" -> IF flt.what = "u" THEN [w EXCEPT ![flt.file].units = Without(@, flt.name)] ELSE [w EXCEPT ![flt.file].comps = Without(@, flt.name)]
      [] flt.kind = "backEdge" -> IF flt.what = "u" THEN [w EXCEPT ![flt.file].units = Replace(@, flt.name, UImp(flt.name, flt.toFile, flt.toName))]
                                  ELSE [w EXCEPT ![flt.file].comps = Replace(@, flt.name, CImp(flt.name, flt.toFile, flt.toName))]
      [] flt.kind = "reachedUnitsCycle" ->
            IF flt.what = "u" THEN [w EXCEPT ![flt.file].units = Replace(@, flt.name, URef(flt.name, "cyc1")) \o <<URef("cyc1", "cyc2"), URef("cyc2", "cyc1")>>]
            ELSE [w EXCEPT ![flt.file].units = @ \o <<URef("cyc1", "cyc2"), URef("cyc2", "cyc1")>>, ![flt.file].comps = Replace(@, flt.name, CLeaf(flt.name, "cyc1"))]
      [] flt.kind = "localUnitsCycle" -> [w EXCEPT ![flt.file].units = @ \o <<URef("cyc1", "cyc2"), URef("cyc2", "cyc1")>>]
\* a back edge only counts when kinds agree and it really closes a cycle of entities
SensibleFault(w, flt) == flt.kind = "backEdge" => ~Satisfiable(ApplyFault(w, flt))
VerdictClaimed(flt) == flt.kind \notin {"localUnitsCycle", "reachedUnitsCycle"}      \* for local unit cycles only termination (and no crash) is claimed
=============================================================================
