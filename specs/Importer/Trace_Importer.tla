--------------------------- MODULE Trace_Importer ---------------------------
EXTENDS Importer, LoggerObs, KnownFindings
VARIABLE l
Init == l = 1
ImportingItem(is) == is.type \in {"import", "units", "component"}
Problems(ev) ==
    LET w == ev.files sat == Satisfiable(ev.files) IN
    (IF VerdictClaimed(ev.fault) /\ ev.r1 # sat THEN {"resolveImports result differs from satisfiability of the import graph"} ELSE {})
    \cup (IF ev.r1 /\ ev.unresolved1 THEN {"resolveImports returned true but the model has unresolved imports"} ELSE {})
    \cup (IF ~ev.r1 /\ ~(\E i \in DOMAIN ev.issues1 : ImportingItem(ev.issues1[i])) THEN {"resolveImports returned false without an issue attached to an importing item"} ELSE {})
    \cup (IF ~ev.r1 /\ ~(ev.flatNull1 /\ ev.flatIssues1 > 0) THEN {"flattenModel on an unresolvable model does not return null with an issue"} ELSE {})
    \cup (IF ev.rootUnchanged THEN {} ELSE {"resolveImports changed the content of the model"})
    \cup (IF ev.r2 /\ ~ev.unresolved2 /\ ~ev.flatNull2 THEN {} ELSE {"after the fault is repaired a fresh resolution does not succeed"})
    \* a retry with the same importer on the same model: whatever the answer, "true" means resolved, "false" comes with an issue
    \* (a cycle of ordinary units still held by the library: flattening is refused, see VerdictClaimed)
    \cup (IF ev.r3 /\ (ev.unresolved3 \/ (VerdictClaimed(ev.fault) /\ ev.flatNull3)) THEN {"a repeated resolveImports returned true but the model has unresolved imports / is not flattened"} ELSE {})
    \cup (IF ~ev.r3 /\ ~(\E i \in DOMAIN ev.issues3 : ImportingItem(ev.issues3[i])) THEN {"a repeated resolveImports returned false without an issue attached to an importing item"} ELSE {})
    \cup (IF LogCoherent(ev.log3) THEN {} ELSE {"incoherent issue list"})
    \cup (IF LogCoherent(ev.log1) /\ LogCoherent(ev.log1f) /\ LogCoherent(ev.log2) THEN {} ELSE {"incoherent issue list"})
Next == /\ l <= Len(TraceLog) /\ l' = l + 1
        /\ LET ev == TraceLog[l] IN
           IF ev.e = "Reset" THEN TRUE
           ELSE IF ev.e # "resolve" THEN Verdict("bad", l, ev.sc, <<ev.e>>)
           ELSE IF Problems(ev) = {} THEN TRUE
           ELSE Verdict("bad", l, ev.sc, <<Problems(ev), ev.world, ev.fault, ev.strict, ev.grouped>>)
Spec == Init /\ [][Next]_l
Accepted == LET d == TLCGet("stats").diameter IN PrintT(<<"DEPTH", d>>) /\ d - 1 = Len(TraceLog)
=============================================================================
