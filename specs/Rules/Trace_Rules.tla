----------------------------- MODULE Trace_Rules -----------------------------
EXTENDS Rules, LoggerObs, KnownFindings
VARIABLE l
Init == l = 1
ErrorRules(ev) == {ev.issues[i].rule : i \in {k \in DOMAIN ev.issues : ev.issues[k].lv = "E"}}
Problems(ev) ==
    (IF ev.baseIssues = <<>> THEN {} ELSE {"a model that is valid by construction is not accepted"})
    \cup (IF ev.applied THEN {} ELSE {"harness: injection not applied"})
    \cup (IF ev.inj.acc = <<>> THEN (IF ev.issues = <<>> THEN {} ELSE {"valid model not accepted"})
          ELSE IF ErrorRules(ev) \cap Range(ev.inj.acc) # {} THEN {} ELSE {"rule violation not reported with an error citing the rule"})
    \cup (IF ev.unchanged THEN {} ELSE {"validateModel modified the model"})
    \cup (IF LogCoherent(ev.log) THEN {} ELSE {"incoherent issue list"})
Next == /\ l <= Len(TraceLog) /\ l' = l + 1
        /\ LET ev == TraceLog[l] IN
           IF ev.e = "Reset" THEN TRUE
           ELSE IF ev.e # "inject" THEN Verdict("bad", l, ev.sc, ev.e)
           ELSE IF Problems(ev) = {} THEN TRUE
           ELSE Verdict("bad", l, ev.sc, <<Problems(ev), ev.inj.name, ErrorRules(ev), ev.inj.mut>>)
Spec == Init /\ [][Next]_l
Accepted == LET d == TLCGet("stats").diameter IN PrintT(<<"DEPTH", d>>) /\ d - 1 = Len(TraceLog)
=============================================================================
