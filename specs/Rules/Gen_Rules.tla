------------------------------ MODULE Gen_Rules ------------------------------
EXTENDS Rules
VARIABLE fv
Bases == {f \in Vary1("depth") \cup Vary1("reset") \cup Vary1("imports") \cup Vary1("ids") \cup Vary2("depth", "pairs") \cup Vary2("depth", "ids") \cup Vary2("depth", "reset") :
            f.reset # "unordered" /\ f.pairs # 3 /\ ~f.twin}
Init == fv \in Bases
Next == UNCHANGED fv
Spec == Init /\ [][Next]_fv
M == ModelOf(fv)
Emit == /\ EmitScenario([fv |-> fv, am |-> M, inj |-> [name |-> "valid base model", acc |-> {}, mut |-> "none"]])
        /\ \A inj \in Injections(M) \cup DuplicateIdInjections(M) \cup ContextInjections(M) \cup ResolvedInjections(M) : EmitScenario([fv |-> fv, am |-> M, inj |-> inj])
=============================================================================
