-------------------------------- MODULE Rules --------------------------------
(* C04: single-rule violations injected into valid-by-construction abstract    *)
(* models, at every applicable site, with the reference rules an error issue   *)
(* may legitimately cite for each.                                             *)
EXTENDS Entity
Inj(name, acc, mut) == [name |-> name, acc |-> acc, mut |-> mut]
Empty == NoneS            \* the mutator turns "none" into the empty string
BadIds == {"1x", "a b"}
BadNames == {Empty, "1a", "a b", "a-b"}
PairM(attr, c1, v1, c2, v2, val) == [op |-> "setPairId", t |-> TModel, attr |-> attr, c1 |-> c1, v1 |-> v1, c2 |-> c2, v2 |-> v2, val |-> val]
EquivM(c1, v1, c2, v2) == [op |-> "addEquiv", t |-> TModel, c1 |-> c1, v1 |-> v1, c2 |-> c2, v2 |-> v2]

Math(body) == MathOpen \o body \o "{LT}/math{GT}"
Apply(op, args) == "{LT}apply{GT}{LT}" \o op \o "/{GT}" \o args \o "{LT}/apply{GT}"
BadMath ==
    {<<"root not math", {"MATH_ELEMENT", "MATH_MATHML"}, "{LT}notmath xmlns={QUOT}" \o MML \o "{QUOT}/{GT}">>,
     <<"not well-formed", {"XML", "MATH_ELEMENT", "MATH_MATHML"}, "{LT}math xmlns={QUOT}" \o MML \o "{QUOT}{GT}{LT}apply{GT}">>,
     <<"unsupported element", {"MATH_CHILD", "MATH_MATHML"}, Math(Apply("eq", Ci("y") \o "{LT}matrix/{GT}"))>>,
     <<"ci names no variable", {"MATH_CI_VARIABLE_REFERENCE"}, Math(Apply("eq", Ci("y") \o Ci("nosuchvar")))>>,
     <<"empty ci", {"MATH_CI_VARIABLE_REFERENCE", "MATH_MATHML"}, Math(Apply("eq", Ci("y") \o "{LT}ci/{GT}"))>>,
     <<"cn without units", {"MATH_CN_UNITS_ATTRIBUTE"}, Math(Apply("eq", Ci("y") \o "{LT}cn{GT}1{LT}/cn{GT}"))>>,
     <<"cn units undefined", {"MATH_CN_UNITS_ATTRIBUTE_REFERENCE", "MATH_CN_UNITS_ATTRIBUTE"}, Math(Apply("eq", Ci("y") \o Cn("1", "nosuchunits")))>>,
     <<"cn units illegal name", {"MATH_CN_UNITS_ATTRIBUTE_REFERENCE", "MATH_CN_UNITS_ATTRIBUTE"}, Math(Apply("eq", Ci("y") \o Cn("1", "1bad")))>>,
     <<"cn not a number", {"MATH_CN_FORMAT", "MATH_MATHML"}, Math(Apply("eq", Ci("y") \o Cn("abc", "dimensionless")))>>,
     <<"cn base 2", {"MATH_CN_BASE10", "MATH_MATHML"}, Math(Apply("eq", Ci("y") \o "{LT}cn cellml:units={QUOT}dimensionless{QUOT} base={QUOT}2{QUOT}{GT}1{LT}/cn{GT}"))>>,
     <<"eq with one operand", {"MATH_MATHML"}, Math(Apply("eq", Ci("y")))>>,
     <<"not with two operands", {"MATH_MATHML"}, Math(Apply("eq", Ci("y") \o Apply("not", Ci("y") \o Ci("z"))))>>,
     <<"and with one operand", {"MATH_MATHML"}, Math(Apply("eq", Ci("y") \o Apply("and", Ci("y"))))>>,
     <<"diff without bvar", {"MATH_MATHML"}, Math(Apply("eq", Apply("diff", Ci("y")) \o Ci("z")))>>,
     <<"piece with one child", {"MATH_MATHML"}, Math(Apply("eq", Ci("y") \o "{LT}piecewise{GT}{LT}piece{GT}" \o Ci("z") \o "{LT}/piece{GT}{LT}/piecewise{GT}"))>>,
     <<"degree outside root", {"MATH_MATHML"}, Math(Apply("eq", Ci("y") \o Apply("plus", "{LT}degree{GT}" \o Ci("z") \o "{LT}/degree{GT}" \o Ci("z"))))>>}

IdxOfComp(m, n) == CHOOSE i \in DOMAIN m.comps : m.comps[i].name = n /\ m.comps[i].imp = NoneS
HasComp(m, n) == \E i \in DOMAIN m.comps : m.comps[i].name = n /\ m.comps[i].imp = NoneS
Local(m) == {i \in DOMAIN m.comps : m.comps[i].imp = NoneS}
Imported(m) == {i \in DOMAIN m.comps : m.comps[i].imp # NoneS}

Injections(m) ==
    \* ---- model
    {Inj("model name", {"MODEL_NAME_VALUE", "DATA_REPR_IDENTIFIER_AT_LEAST_ONE_ALPHANUM", "DATA_REPR_IDENTIFIER_BEGIN_EURO_NUM", "DATA_REPR_IDENTIFIER_LATIN_ALPHANUM"}, SetM(TModel, "name", n)) : n \in BadNames}
    \cup {Inj("model id", {"XML_ID_ATTRIBUTE"}, SetM(TModel, "id", d)) : d \in BadIds}
    \cup {Inj("encapsulation id", {"XML_ID_ATTRIBUTE"}, SetM(TModel, "encId", d)) : d \in BadIds}
    \* ---- units and their children
    \cup UNION {
        {Inj("units name", {"UNITS_NAME_VALUE", "IMPORT_UNITS_NAME_VALUE", "DATA_REPR_IDENTIFIER_AT_LEAST_ONE_ALPHANUM", "DATA_REPR_IDENTIFIER_BEGIN_EURO_NUM", "DATA_REPR_IDENTIFIER_LATIN_ALPHANUM"}, SetM(TUnits(i), "name", n)) : n \in BadNames}
        \cup {Inj("units name standard", {"UNITS_STANDARD", "UNITS_NAME_UNIQUE"}, SetM(TUnits(i), "name", "second"))}
        \cup {Inj("units name duplicate", {"UNITS_NAME_UNIQUE", "IMPORT_UNITS_NAME_UNIQUE"}, SetM(TUnits(i), "name", m.units[j].name)) : j \in DOMAIN m.units \ {i}}
        \cup {Inj("units id", {"XML_ID_ATTRIBUTE"}, SetM(TUnits(i), "id", d)) : d \in BadIds}
        \cup (IF m.units[i].imp # NoneS
              THEN {Inj("units_ref", {"IMPORT_UNITS_UNITS_REFERENCE_VALUE", "IMPORT_UNITS_UNITS_REFERENCE"}, SetM(TUnits(i), "ref", r)) : r \in {"1bad", Empty}}
                   \cup {Inj("import href", {"IMPORT_HREF_LOCATOR", "IMPORT_HREF"}, SetM(TImportU(i), "url", Empty))}
                   \cup {Inj("import id", {"XML_ID_ATTRIBUTE"}, SetM(TImportU(i), "id", d)) : d \in BadIds}
              ELSE {})
        \cup UNION {{Inj("unit reference", {"UNIT_UNITS_REFERENCE"}, SetM(TUnit(i, j), "unitRef", r)) : r \in {"nosuchunits", "1bad"}}
                    \cup {Inj("unit prefix", {"UNIT_ATTRIBUTE_PREFIX_VALUE", "UNIT_ATTRIBUTE_OPTIONAL"}, SetM(TUnit(i, j), "prefix", p)) : p \in {"kilos", "1.5", "99999999999"}}
                    \cup {Inj("unit id", {"XML_ID_ATTRIBUTE"}, SetM(TUnit(i, j), "unitId", d)) : d \in BadIds}
                    : j \in DOMAIN m.units[i].kids}
        : i \in DOMAIN m.units}
    \cup {Inj("units cycle", {"UNIT_UNITS_CIRCULAR_REFERENCE"}, SetM(TUnit(1, 2), "unitRef", "u2")),       \* u1 -> u2 -> u1
          Inj("units self reference", {"UNIT_UNITS_CIRCULAR_REFERENCE"}, SetM(TUnit(2, 1), "unitRef", "u2"))}
    \* ---- components
    \cup UNION {
        {Inj("component name", {"COMPONENT_NAME_VALUE", "IMPORT_COMPONENT_NAME_VALUE", "DATA_REPR_IDENTIFIER_AT_LEAST_ONE_ALPHANUM", "DATA_REPR_IDENTIFIER_BEGIN_EURO_NUM", "DATA_REPR_IDENTIFIER_LATIN_ALPHANUM"}, SetM(TComp(i), "name", n)) : n \in BadNames}
        \cup {Inj("component name duplicate", {"COMPONENT_NAME_UNIQUE", "IMPORT_COMPONENT_NAME_UNIQUE"}, SetM(TComp(i), "name", m.comps[j].name)) : j \in DOMAIN m.comps \ {i}}
        \cup {Inj("component id", {"XML_ID_ATTRIBUTE"}, SetM(TComp(i), "id", d)) : d \in BadIds}
        \cup (IF m.comps[i].parent # NoneS \/ HasKids(m, i) THEN {Inj("component_ref id", {"XML_ID_ATTRIBUTE"}, SetM(TComp(i), "encId", d)) : d \in BadIds} ELSE {})
        : i \in DOMAIN m.comps}
    \cup UNION {
        {Inj("component_ref", {"IMPORT_COMPONENT_COMPONENT_REFERENCE_VALUE", "IMPORT_COMPONENT_COMPONENT_REFERENCE"}, SetM(TComp(i), "ref", r)) : r \in {"1bad", Empty}}
        \cup {Inj("import href", {"IMPORT_HREF_LOCATOR", "IMPORT_HREF"}, SetM(TImport(i), "url", Empty))}
        : i \in Imported(m)}
    \* ---- math, in every local component
    \cup UNION {{Inj("math: " \o bm[1], bm[2], SetM(TComp(i), "math", bm[3])) : bm \in BadMath} : i \in Local(m)}
    \* ---- variables
    \cup UNION {UNION {
        {Inj("variable name", {"VARIABLE_NAME_VALUE", "DATA_REPR_IDENTIFIER_AT_LEAST_ONE_ALPHANUM", "DATA_REPR_IDENTIFIER_BEGIN_EURO_NUM", "DATA_REPR_IDENTIFIER_LATIN_ALPHANUM"}, SetM(TVar(i, j), "name", n)) : n \in BadNames}
        \cup {Inj("variable name duplicate", {"VARIABLE_NAME_UNIQUE"}, SetM(TVar(i, j), "name", m.comps[i].vars[k].name)) : k \in DOMAIN m.comps[i].vars \ {j}}
        \cup {Inj("variable units", {"VARIABLE_UNITS_VALUE", "VARIABLE_UNITS"}, SetM(TVar(i, j), "units", u)) : u \in {"nosuchunits", "1bad", NoneS}}
        \cup {Inj("variable interface", {"VARIABLE_INTERFACE_VALUE"}, SetM(TVar(i, j), "iface", "bogus"))}
        \cup {Inj("variable initial value", {"VARIABLE_INITIAL_VALUE_VALUE"}, SetM(TVar(i, j), "init", v)) : v \in {"abc", "1.2.3", "1e", "-"}}
        \cup {Inj("variable id", {"XML_ID_ATTRIBUTE"}, SetM(TVar(i, j), "id", d)) : d \in BadIds}
        : j \in DOMAIN m.comps[i].vars} : i \in Local(m)}
    \* ---- resets
    \cup UNION {UNION {
        {Inj("reset order unset", {"RESET_ORDER_VALUE", "RESET_ATTRIBUTE_REQUIRED"}, SetM(TReset(i, j), "order", "unset")),
         Inj("reset variable missing", {"RESET_VARIABLE_REFERENCE", "RESET_ATTRIBUTE_REQUIRED"}, SetM(TReset(i, j), "var", NoneS)),
         Inj("reset test_variable missing", {"RESET_TEST_VARIABLE_REFERENCE", "RESET_ATTRIBUTE_REQUIRED"}, SetM(TReset(i, j), "tvar", NoneS)),
         Inj("reset variable of another component", {"RESET_VARIABLE_REFERENCE"}, [op |-> "set", t |-> TReset(i, j), attr |-> "varOther", val |-> "x", oc |-> IdxOfComp(m, "d1") - 1]),
         Inj("reset without test_value", {"RESET_CHILD", "TEST_VALUE_ELEMENT", "RESET_TEST_VALUE"}, SetM(TReset(i, j), "tv", Empty)),
         Inj("reset without reset_value", {"RESET_CHILD", "RESET_VALUE_ELEMENT", "RESET_RESET_VALUE"}, SetM(TReset(i, j), "rv", Empty)),
         Inj("test_value not math", {"TEST_VALUE_CHILD", "TEST_VALUE_ELEMENT", "MATH_ELEMENT", "MATH_MATHML"}, SetM(TReset(i, j), "tv", "{LT}notmath xmlns={QUOT}" \o MML \o "{QUOT}/{GT}")),
         Inj("reset_value ci unknown", {"MATH_CI_VARIABLE_REFERENCE"}, SetM(TReset(i, j), "rv", Math(Ci("nosuchvar"))))}
        \cup {Inj("reset ids", {"XML_ID_ATTRIBUTE"}, SetM(TReset(i, j), a, d)) : a \in {"id", "tvid", "rvid"}, d \in BadIds}
        \cup (IF j > 1 THEN {Inj("reset order duplicate", {"RESET_ORDER_UNIQUE"}, SetM(TReset(i, j), "order", m.comps[i].resets[1].order))} ELSE {})
        : j \in DOMAIN m.comps[i].resets} : i \in Local(m)}
    \* ---- equivalences: interface, reachability, units, structure
    \cup (IF Len(m.conns) > 0
          THEN {Inj("interface insufficient (sibling)", {"MAP_VARIABLES_ELEMENT", "VARIABLE_INTERFACE_VALUE"}, SetM(TVar(IdxOfComp(m, "d1"), 1), "iface", f)) : f \in {"private", Empty, "none"}}
               \cup {Inj("mapping id", {"XML_ID_ATTRIBUTE"}, PairM("mapId", 0, 0, IdxOfComp(m, "d1") - 1, 0, d)) : d \in BadIds}
               \cup {Inj("connection id", {"XML_ID_ATTRIBUTE"}, PairM("connId", 0, 0, IdxOfComp(m, "d1") - 1, 0, d)) : d \in BadIds}
          ELSE {})
    \cup {Inj("equivalent units incompatible", {"MAP_VARIABLES_ELEMENT"}, EquivM(0, 2, IdxOfComp(m, "d1") - 1, 1)),                \* c1.z [second] - d1.y [dimensionless]
          Inj("equivalent variable without component", {"MAP_VARIABLES_VARIABLE1_ATTRIBUTE", "MAP_VARIABLES_VARIABLE2_ATTRIBUTE", "MAP_VARIABLES_ELEMENT"}, [op |-> "addEquivParentless", t |-> TModel, c1 |-> 0, v1 |-> 2])}
    \cup (IF HasComp(m, "c2") THEN {Inj("unreachable: uncle - nephew", {"MAP_VARIABLES_ELEMENT"}, EquivM(IdxOfComp(m, "d1") - 1, 2, IdxOfComp(m, "c2") - 1, 2)),
                                    Inj("interface insufficient (child)", {"MAP_VARIABLES_ELEMENT"}, EquivM(0, 2, IdxOfComp(m, "c2") - 1, 2))}    \* c1.z is only public
          ELSE {})
    \cup (IF HasComp(m, "c3") THEN {Inj("unreachable: grandparent - grandchild", {"MAP_VARIABLES_ELEMENT"}, EquivM(0, 1, IdxOfComp(m, "c3") - 1, 1)),
                                    Inj("unreachable: cousin", {"MAP_VARIABLES_ELEMENT"}, EquivM(IdxOfComp(m, "d1") - 1, 1, IdxOfComp(m, "c3") - 1, 1))}
          ELSE {})
\* a fault that lies in the context, not in the text, of a piece of math: d1 is first given (pre, still valid) the very math text of
\* c1, then the variable that text names is renamed in d1 - the same text is valid in c1 and names no variable in d1
ContextInjections(m) ==
    IF m.comps[1].math = NoneS \/ ~HasComp(m, "d1") THEN {} ELSE
    {[name |-> "math valid elsewhere: ci names no variable here", acc |-> {"MATH_CI_VARIABLE_REFERENCE"},
      pre |-> SetM(TComp(IdxOfComp(m, "d1")), "math", m.comps[1].math), mut |-> SetM(TVar(IdxOfComp(m, "d1"), 2), "name", "yy")]}
    \cup (IF HasComp(m, "c2") /\ m.comps[IdxOfComp(m, "c2")].math # NoneS
          THEN {[name |-> "math valid in a child: ci names no variable here", acc |-> {"MATH_CI_VARIABLE_REFERENCE"},
                 pre |-> SetM(TComp(IdxOfComp(m, "d1")), "math", m.comps[IdxOfComp(m, "c2")].math), mut |-> SetM(TVar(IdxOfComp(m, "d1"), 3), "name", "zz")]}
          ELSE {})
\* resolved imports: a library model is attached to the import source (what Importer::resolveImports / ImportSource::setModel do).
\* The validator then follows the import: the target is looked up in the library (a component anywhere in its encapsulation
\* hierarchy), validated there, and a chain of imports is followed in turn.  "acc = {}" : the model stays valid.
AttachM(t, kind) == [op |-> "attachLib", t |-> t, val |-> kind]
ImportedUnits(m) == {i \in DOMAIN m.units : m.units[i].imp # NoneS}
ResolvedInjections(m) ==
    UNION {
        {Inj("resolved import: component " \o k, {}, AttachM(TImport(i), k)) : k \in {"top", "nested", "deep", "chain"}}
        \cup {Inj("resolved import: component missing", {"IMPORT_COMPONENT_COMPONENT_REFERENCE_TARGET"}, AttachM(TImport(i), "missing")),
              Inj("resolved import: component missing at the second level", {"IMPORT_COMPONENT_COMPONENT_REFERENCE_TARGET"}, AttachM(TImport(i), "chainMissing")),
              Inj("resolved import: component invalid inside", {"VARIABLE_UNITS_VALUE", "VARIABLE_ATTRIBUTE_REQUIRED"}, AttachM(TImport(i), "invalidInside")),
              Inj("resolved import: nested component invalid inside", {"VARIABLE_UNITS_VALUE", "VARIABLE_ATTRIBUTE_REQUIRED"}, AttachM(TImport(i), "nestedInvalidInside")),
              Inj("resolved import: component import cycle", {"IMPORT_COMPONENT_COMPONENT_REFERENCE"}, AttachM(TImport(i), "cycle"))}
        : i \in Imported(m)}
    \cup UNION {
        {Inj("resolved import: units " \o k, {}, AttachM(TImportU(i), k)) : k \in {"top", "viaLocal", "chain"}}
        \cup {Inj("resolved import: units missing", {"IMPORT_UNITS_UNITS_REFERENCE_VALUE_TARGET"}, AttachM(TImportU(i), "missing")),
              Inj("resolved import: units missing at the second level", {"IMPORT_UNITS_UNITS_REFERENCE_VALUE_TARGET"}, AttachM(TImportU(i), "chainMissing")),
              Inj("resolved import: units invalid inside", {"UNIT_UNITS_REFERENCE"}, AttachM(TImportU(i), "invalidInside")),
              Inj("resolved import: units import cycle", {"IMPORT_UNITS_UNITS_REFERENCE"}, AttachM(TImportU(i), "cycle"))}
        : i \in ImportedUnits(m)}
\* duplicated ids: the id of one item copied onto an item of another kind (models generated with ids everywhere)
DuplicateIdInjections(m) ==
    IF m.id = NoneS THEN {} ELSE
    {Inj("duplicate id", {"XML_ID_ATTRIBUTE"}, SetM(TComp(1), "id", m.id)),
     Inj("duplicate id", {"XML_ID_ATTRIBUTE"}, SetM(TVar(1, 2), "id", m.comps[2].id)),
     Inj("duplicate id", {"XML_ID_ATTRIBUTE"}, SetM(TUnits(1), "id", m.comps[1].vars[1].id)),
     Inj("duplicate id", {"XML_ID_ATTRIBUTE"}, SetM(TUnit(1, 1), "unitId", m.units[1].id)),
     Inj("duplicate id", {"XML_ID_ATTRIBUTE"}, SetM(TComp(1), "encId", m.comps[1].id))}
=============================================================================
