------------------------------ MODULE BadArgs ------------------------------
(* C09, second sentence: every public method of a service that takes an entity, an index or a name returns false,     *)
(* null or an issue and changes nothing when it is handed a null pointer, an entity that was never added to a model,   *)
(* an entity whose owner has been destroyed, an out-of-range index or an unknown name.                                 *)
(* (The object model itself is covered by ObjectModel: MC_*bad configurations put the same bad values in the alphabet.) *)
(* A row names a method and one of its parameters; Kinds(row) are the bad values that parameter can take; ok is the    *)
(* set of acceptable outcomes of the call.  Outcomes: "false", "null", "empty" (empty string / list), "zero",           *)
(* "issue" (the service logged an error), "void" (nothing to return), "accepted" (the call registers the object; what   *)
(* is wrong with it must then surface as an issue - or be ignored - when the service is used, never as a crash).        *)
(* Pinned by the repository's tests and therefore "accepted" rows: Importer::replaceModel(nullptr, key) is how            *)
(* ModelFlattening.resolveFlattenMissingModel empties a library entry; Annotator::assignId(importSource) gives an id to   *)
(* any import source ("import sources don't belong to a model", Annotator.automaticIdAllItemsWrongModel), so only the     *)
(* null import source is a bad argument there.                                                                            *)
EXTENDS Naturals, Sequences, FiniteSets
Row(svc, m, param, ok) == [svc |-> svc, m |-> m, param |-> param, ok |-> ok]
PointerKinds == {"null", "parentless", "ownerDestroyed"}
KindsOfParam(p) == CASE p \in {"model", "nullonly"} -> {"null"}
                     [] p \in {"variable", "component", "units", "reset", "entity"} -> PointerKinds
                     [] p \in {"importSource", "extvar", "notmember"} -> {"null", "parentless"}        \* parentless: an object the service never saw
                     [] p = "index" -> {"oob"}
                     [] p \in {"name", "key", "id"} -> {"unknown"}
                     [] p = "foreign" -> {"foreign"}                                                    \* an entity of another model
Rows ==
    { \* ---- Importer
      Row("importer", "resolveImports", "model", {"false"}), Row("importer", "flattenModel", "model", {"null"}), Row("importer", "clearImports", "model", {"void"}),
      Row("importer", "libraryByKey", "key", {"null"}), Row("importer", "libraryByIndex", "index", {"null"}), Row("importer", "key", "index", {"empty"}),
      Row("importer", "addModel", "model", {"false"}), Row("importer", "replaceModel", "key", {"false"}), Row("importer", "replaceModelNull", "model", {"false", "accepted"}),
      Row("importer", "addImportSource", "nullonly", {"false"}), Row("importer", "importSource", "index", {"null"}), Row("importer", "removeImportSourceByIndex", "index", {"false"}),
      Row("importer", "removeImportSource", "importSource", {"false"}), Row("importer", "hasImportSource", "importSource", {"false"}),
      \* ---- Annotator
      Row("annotator", "setModel", "model", {"void"}), Row("annotator", "item", "id", {"null"}), Row("annotator", "component", "id", {"null"}), Row("annotator", "variable", "id", {"null"}),
      Row("annotator", "units", "id", {"null"}), Row("annotator", "reset", "id", {"null"}), Row("annotator", "model", "id", {"null"}), Row("annotator", "importSource", "id", {"null"}),
      Row("annotator", "unitsItem", "id", {"null"}), Row("annotator", "encapsulation", "id", {"null"}), Row("annotator", "connection", "id", {"null"}), Row("annotator", "mapVariables", "id", {"null"}),
      Row("annotator", "componentRef", "id", {"null"}), Row("annotator", "resetValue", "id", {"null"}), Row("annotator", "testValue", "id", {"null"}),
      Row("annotator", "itemCount", "id", {"zero"}), Row("annotator", "items", "id", {"empty"}),
      Row("annotator", "assignIdComponent", "component", {"empty"}), Row("annotator", "assignIdVariable", "variable", {"empty"}), Row("annotator", "assignIdUnits", "units", {"empty"}),
      Row("annotator", "assignIdReset", "reset", {"empty"}), Row("annotator", "assignIdModel", "model", {"empty"}), Row("annotator", "assignIdAny", "nullonly", {"empty"}),
      Row("annotator", "assignIdUnitsItem", "index", {"empty"}), Row("annotator", "assignIdPair", "variable", {"empty"}), Row("annotator", "assignIdImportSource", "nullonly", {"empty"}),
      \* ---- Analyser and its external variables
      Row("analyser", "analyseModel", "model", {"issue"}), Row("analyser", "addExternalVariable", "nullonly", {"false"}), Row("analyser", "addExternalVariableOn", "variable", {"false", "accepted"}),
      Row("analyser", "externalVariableByIndex", "index", {"null"}), Row("analyser", "externalVariableByName", "name", {"null"}), Row("analyser", "externalVariableNullModel", "model", {"null"}),
      Row("analyser", "removeExternalVariableByIndex", "index", {"false"}), Row("analyser", "removeExternalVariableByName", "name", {"false"}), Row("analyser", "removeExternalVariable", "extvar", {"false"}),
      Row("analyser", "containsExternalVariable", "extvar", {"false"}), Row("analyser", "containsExternalVariableByName", "name", {"false"}),
      Row("extvar", "addDependency", "variable", {"false"}), Row("extvar", "addDependencyForeign", "foreign", {"false"}), Row("extvar", "removeDependencyByIndex", "index", {"false"}),
      Row("extvar", "removeDependencyByName", "name", {"false"}), Row("extvar", "removeDependency", "notmember", {"false"}), Row("extvar", "dependencyByIndex", "index", {"null"}),
      Row("extvar", "dependencyByName", "name", {"null"}), Row("extvar", "containsDependency", "notmember", {"false"}), Row("extvar", "containsDependencyByName", "name", {"false"}),
      \* ---- AnalyserModel queries
      Row("amodel", "state", "index", {"null"}), Row("amodel", "variable", "index", {"null"}), Row("amodel", "equation", "index", {"null"}),
      Row("amodel", "areEquivalentVariablesLeft", "variable", {"false"}), Row("amodel", "areEquivalentVariablesRight", "variable", {"false"}),
      Row("amodel", "equationDependency", "index", {"null"}), Row("amodel", "equationNlaSibling", "index", {"null"}), Row("amodel", "equationVariable", "index", {"null"}), Row("amodel", "variableEquation", "index", {"null"}),
      \* ---- the other services' entry points
      Row("validator", "validateModel", "model", {"issue"}), Row("printer", "printModel", "model", {"empty"}), Row("generator", "setModel", "model", {"empty"}), Row("parser", "parseModel", "nullonly", {"null", "issue"}) }
Scenarios == UNION {{[svc |-> r.svc, m |-> r.m, kind |-> k] : k \in KindsOfParam(r.param)} : r \in Rows}
RowOf(svc, m) == CHOOSE r \in Rows : r.svc = svc /\ r.m = m
\* the oracle: an acceptable outcome, nothing changed, and the service still does its job afterwards
Acceptable(svc, m, outcome) == \E r \in Rows : r.svc = svc /\ r.m = m /\ outcome \in r.ok
=============================================================================
