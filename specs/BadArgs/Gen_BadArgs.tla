---------------------------- MODULE Gen_BadArgs ----------------------------
EXTENDS BadArgs, TraceIO
VARIABLE sc
Init == sc \in Scenarios
Next == UNCHANGED sc
Spec == Init /\ [][Next]_sc
Emit == EmitScenario(sc)
=============================================================================
