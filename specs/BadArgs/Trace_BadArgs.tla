--------------------------- MODULE Trace_BadArgs ---------------------------
(* One event per scenario: the outcome class of the call, whether the fixture (models and the service's observable      *)
(* state) is unchanged, and whether the service's main operation still runs normally afterwards.                        *)
EXTENDS BadArgs, TraceIO, KnownFindings
VARIABLE l
Init == l = 1
Dev(d, ev) == FALSE
Problems(ev) ==
    (IF ev.outcome = "unimplemented" THEN {"harness: the executor does not implement this row"} ELSE {})
    \cup (IF ev.outcome # "unimplemented" /\ ~Acceptable(ev.svc, ev.m, ev.outcome) THEN {"the call neither returns false / null / nothing nor reports an issue"} ELSE {})
    \cup (IF ev.outcome # "accepted" /\ ~ev.unchanged THEN {"the refused call changed the model or the service"} ELSE {})
    \cup (IF ev.afterOk THEN {} ELSE {"the service no longer works after the call"})
Next == /\ l <= Len(TraceLog) /\ l' = l + 1
        /\ LET ev == TraceLog[l] IN
           IF ev.e = "Reset" THEN TRUE
           ELSE IF ev.e \in {"Crash", "Hang"} THEN Verdict("bad", l, ev.sc, <<ev.e, ev.what>>)
           ELSE IF ev.e # "badarg" THEN Verdict("bad", l, ev.sc, <<ev.e>>)
           ELSE IF Problems(ev) = {} THEN TRUE
           ELSE Verdict("bad", l, ev.sc, <<Problems(ev), ev.svc, ev.m, ev.kind, ev.outcome>>)
Spec == Init /\ [][Next]_l
Accepted == LET d == TLCGet("stats").diameter IN PrintT(<<"DEPTH", d>>) /\ d - 1 = Len(TraceLog)
=============================================================================
