------------------------------ MODULE Annotator ------------------------------
(* C13: identifier assignment over histories of setModel / model edits /       *)
(* assign* / clearAllIds / lookups.  The model shape is fixed (the driver's);   *)
(* the abstract state is the id of every id-carrying item, of both models.      *)
EXTENDS Naturals, Sequences, FiniteSets, TraceIO
NoneS == "none"
KindPairs == {<<"model", "MODEL">>,
              <<"enc", "ENCAPSULATION">>,
              <<"imp", "IMPORT">>,
              <<"units:iu", "UNITS">>,
              <<"units:u1", "UNITS">>,
              <<"unit:u1/0", "UNIT">>,
              <<"unit:u1/1", "UNIT">>,
              <<"comp:c1", "COMPONENT">>,
              <<"comp:c2", "COMPONENT">>,
              <<"comp:d1", "COMPONENT">>,
              <<"cref:c1", "COMPONENT_REF">>,
              <<"cref:c2", "COMPONENT_REF">>,
              <<"var:c1/x", "VARIABLE">>,
              <<"var:c1/y", "VARIABLE">>,
              <<"var:c2/x", "VARIABLE">>,
              <<"var:c2/y", "VARIABLE">>,
              <<"var:d1/x", "VARIABLE">>,
              <<"var:d1/y", "VARIABLE">>,
              <<"reset", "RESET">>,
              <<"tv", "TEST_VALUE">>,
              <<"rv", "RESET_VALUE">>,
              <<"map:c1x-d1x", "MAP_VARIABLES">>,
              <<"map:c1y-d1y", "MAP_VARIABLES">>,
              <<"map:c1x-c2x", "MAP_VARIABLES">>,
              <<"conn:c1-d1", "CONNECTION">>,
              <<"conn:c1-c2", "CONNECTION">>}
KindOf == [i \in {p[1] : p \in KindPairs} |-> (CHOOSE p \in KindPairs : p[1] = i)[2]]
Items == DOMAIN KindOf                     \* the 13 documented kinds; "math" (an id inside MathML) is extra
Kinds == {KindOf[i] : i \in Items}
\* the encapsulation id of d1, a top-level component without children: no component_ref element exists for it (nothing has to be
\* assigned), but the object carries the id, the annotator lists it, and a new identifier must differ from it
Loose == {"cref:d1"}
Listed == Items \cup Loose
RepItems == {"model", "enc", "imp", "units:u1", "unit:u1/1", "comp:c2", "cref:c1", "var:d1/y", "reset", "tv", "rv", "map:c1y-d1y", "conn:c1-d1"}
Models == {"m1", "m2"}

\* ---------------------------------------------------------------- reference semantics (predicates over pre / post id maps)
Present(ids) == {ids[i] : i \in DOMAIN ids} \ {NoneS}          \* every identifier anywhere in the model, MathML included
NewItems(pre, post) == {i \in Items : post[i] # pre[i]}
NonDestructive(pre, post, except) == \A i \in Listed \ except : pre[i] # NoneS => post[i] = pre[i]
Fresh(pre, post) == /\ \A i \in NewItems(pre, post) : post[i] # NoneS /\ post[i] \notin Present(pre)
                    /\ \A i, j \in NewItems(pre, post) : i # j => post[i] # post[j]
Complete(post, which) == \A i \in which : post[i] # NoneS
OnlyTouches(pre, post, which) == \A i \in Listed \ which : post[i] = pre[i]
CountOf(ids, id) == Cardinality({i \in Listed : ids[i] = id})
=============================================================================
