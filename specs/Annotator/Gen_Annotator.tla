---------------------------- MODULE Gen_Annotator ----------------------------
EXTENDS Annotator
CONSTANT Depth   \* "quick" | "thorough"
Seeds == [blank |-> <<>>,
          some |-> <<[item |-> "comp:c1", id |-> "cid"], [item |-> "var:c1/x", id |-> "vid"]>>,
          dups |-> <<[item |-> "comp:c1", id |-> "dup"], [item |-> "var:d1/y", id |-> "dup"], [item |-> "tv", id |-> "dup"]>>,
          auto |-> <<[item |-> "units:u1", id |-> "b4da55"], [item |-> "map:c1x-d1x", id |-> "b4da56"], [item |-> "conn:c1-c2", id |-> "b4da57"]>>,
          automath |-> <<[item |-> "math", id |-> "b4da55"]>>]
SeedFor(name) == [i \in 1..(2 * Len(Seeds[name])) |->
                    LET k == ((i - 1) % Len(Seeds[name])) + 1 IN
                    [m |-> IF i <= Len(Seeds[name]) THEN "m1" ELSE "m2", item |-> Seeds[name][k].item, id |-> Seeds[name][k].id]]
Assigns == {[op |-> "assignAllIds"]} \cup {[op |-> "assignIds", kind |-> k] : k \in Kinds \cup {"MATH"}} \cup {[op |-> "assignId", item |-> i] : i \in RepItems}
EditIds == {"b4da55", "b4da56", "dup", NoneS}
Edits(m) == {[op |-> "edit", m |-> m, item |-> i, id |-> d] : i \in RepItems \cup {"math"} \cup Loose, d \in EditIds}
Set(m) == [op |-> "setModel", m |-> m]
Histories ==
    {<<Set("m1"), a>> : a \in Assigns}
    \cup {<<Set("m1"), e, a>> : e \in Edits("m1"), a \in (IF Depth = "quick" THEN {[op |-> "assignAllIds"], [op |-> "assignIds", kind |-> "MODEL"], [op |-> "assignId", item |-> "var:d1/y"], [op |-> "lookup"]} ELSE Assigns \cup {[op |-> "lookup"]})}
    \cup UNION {{<<Set("m1"), [op |-> "assignAllIds"], e, a>> :
                    a \in {[op |-> "assignAllIds"], [op |-> "assignIds", kind |-> IF e.item = "math" THEN "MATH" ELSE IF e.item \in Loose THEN "COMPONENT_REF" ELSE KindOf[e.item]], [op |-> "assignId", item |-> "comp:c2"], [op |-> "lookup"]}}
                : e \in Edits("m1")}
    \cup {<<Set("m1"), [op |-> "assignAllIds"], Set("m2"), a>> : a \in Assigns \cup {[op |-> "lookup"]}}
    \cup {<<Set("m1"), e, Set("m2"), a>> : e \in Edits("m2"), a \in {[op |-> "assignAllIds"], [op |-> "lookup"], [op |-> "assignId", item |-> "model"]}}
    \cup {<<Set("m1"), e, Set("m1"), a>> : e \in Edits("m1"), a \in {[op |-> "assignIds", kind |-> "MODEL"], [op |-> "lookup"]}}
    \cup {<<Set("m1"), [op |-> "clearAllIds"], a>> : a \in {[op |-> "assignAllIds"], [op |-> "lookup"], [op |-> "assignIds", kind |-> "VARIABLE"]}}
    \cup {<<a>> : a \in {[op |-> "assignAllIds"], [op |-> "assignIds", kind |-> "UNITS"], [op |-> "clearAllIds"]}}
    \cup {<<[op |-> "printAuto", m |-> "m1"]>>} \cup {<<e, [op |-> "printAuto", m |-> "m1"]>> : e \in Edits("m1")}
VARIABLE sc
Init == sc \in {[seed |-> SeedFor(s), cmds |-> h] : s \in DOMAIN Seeds, h \in Histories}
Next == UNCHANGED sc
Spec == Init /\ [][Next]_sc
Emit == EmitScenario(sc)
=============================================================================
