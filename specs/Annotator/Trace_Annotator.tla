--------------------------- MODULE Trace_Annotator ---------------------------
EXTENDS Annotator, LoggerObs, KnownFindings
VARIABLE l
Init == l = 1
Other(m) == IF m = "m1" THEN "m2" ELSE "m1"
AssignOps == {"assignAllIds", "assignIds", "assignId"}

LookupProblems(ev, post) ==
    IF "lookups" \notin DOMAIN ev THEN {} ELSE
    (IF \A id \in DOMAIN ev.lookups : ev.lookups[id].count = CountOf(post, id) THEN {} ELSE {"itemCount disagrees with the model"})
    \cup (IF \A id \in DOMAIN ev.lookups :
               ev.lookups[id].item = (IF CountOf(post, id) = 1 THEN CHOOSE i \in Listed : post[i] = id ELSE NoneS)
          THEN {} ELSE {"item(id) does not return exactly the object carrying the id"})
    \cup (IF Range(ev.annIds) = {post[i] : i \in Listed} \ {NoneS} THEN {} ELSE {"ids() disagrees with the model"})
    \cup (IF Range(ev.annDups) = {d \in {post[i] : i \in Listed} \ {NoneS} : CountOf(post, d) > 1} THEN {} ELSE {"duplicateIds() disagrees with the model"})
    \cup (IF LogCoherent(ev.log) THEN {} ELSE {"incoherent issue list"})

\* ids in the printed text: those of the model keep their multiplicity, every automatic one occurs once and is new
CountIn(seq, x) == Cardinality({k \in DOMAIN seq : seq[k] = x})
CountAll(ids, x) == Cardinality({i \in DOMAIN ids : ids[i] = x})
\* (an id carried by an object for which no element is written - Loose - does not appear in the document)
Written(ids) == [i \in DOMAIN ids \ Loose |-> ids[i]]
PrintFresh(printed, pre0) == LET pre == Written(pre0) IN \A x \in Range(printed) : CountIn(printed, x) = (IF x \in Present(pre) THEN CountAll(pre, x) ELSE 1)
PrintFreshButMath(printed, pre0) == LET pre == Written(pre0) IN
    \A x \in Range(printed) : CountIn(printed, x) = (IF x \in Present(pre) THEN CountAll(pre, x) ELSE 1) + (IF x = pre["math"] THEN 1 ELSE 0)

Problems(ev) ==
    LET op == ev.c.op
        m == ev.cur
    IN
    IF op = "printAuto" THEN (IF PrintFresh(ev.printedIds, ev.pre[ev.c.m]) THEN {} ELSE {"printModel(auto ids) writes an id that is not unique"})
                             \cup (IF ev.printComplete THEN {} ELSE {"printModel(auto ids) leaves elements without id"})
                             \cup (IF ev.printUnchanged /\ ev.post = ev.pre THEN {} ELSE {"printModel(auto ids) modified the model"})
    ELSE IF op \in {"setModel", "lookup"} THEN (IF ev.post = ev.pre THEN {} ELSE {"model changed by a read-only call"}) \cup (IF m = NoneS THEN {} ELSE LookupProblems(ev, ev.post[m]))
    ELSE IF op = "edit" THEN (IF ev.post = [ev.pre EXCEPT ![ev.c.m][ev.c.item] = ev.c.id] THEN {} ELSE {"harness: edit not applied"})
    ELSE IF m = NoneS THEN (IF ev.post = ev.pre /\ ev.r \in {"no", NoneS} THEN {} ELSE {"call without a model changed something"})
    ELSE LET pre == ev.pre[m] post == ev.post[m] IN
      (IF ev.post[Other(m)] = ev.pre[Other(m)] /\ post["math"] = pre["math"] THEN {} ELSE {"an unrelated model / the MathML was modified"})
      \cup (CASE op = "clearAllIds" -> (IF \A i \in Items : post[i] = NoneS THEN {} ELSE {"clearAllIds left an id"})
              [] op = "assignAllIds" -> (IF NonDestructive(pre, post, {}) THEN {} ELSE {"existing id changed"})
                                        \cup (IF Complete(post, Items) THEN {} ELSE {"item left without id"})
                                        \cup (IF Fresh(pre, post) THEN {} ELSE {"assigned id not fresh"})
              [] op = "assignIds" -> LET which == {i \in Items : KindOf[i] = ev.c.kind} IN
                                        (IF NonDestructive(pre, post, {}) THEN {} ELSE {"existing id changed"})
                                        \cup (IF Complete(post, which) THEN {} ELSE {"item of the requested kind left without id"})
                                        \cup (IF Fresh(pre, post) THEN {} ELSE {"assigned id not fresh"})
              [] op = "assignId" -> (IF NonDestructive(pre, post, {ev.c.item}) THEN {} ELSE {"existing id of another item changed"})
                                        \cup (IF post[ev.c.item] # NoneS /\ ev.r = post[ev.c.item] THEN {} ELSE {"item left without id / wrong id returned"})
                                        \cup (IF OnlyTouches(pre, post, {ev.c.item}) THEN {} ELSE {"another item was touched"})
                                        \* the item is given a new identifier even if it had one: it differs from everything present at the call
                                        \cup (IF Fresh(pre, post) /\ post[ev.c.item] \notin Present(pre) THEN {} ELSE {"assigned id not fresh"}))
      \cup LookupProblems(ev, post)

\* Known deviation AutoIdIgnoresMathIds: an automatic id equals an id carried by an element inside the MathML (which neither
\* the annotator nor the printer lists); everything else about the call is right.
ItemsOnly(ids) == [i \in Listed |-> ids[i]]
Dev(d, ev) ==
    /\ d = "AutoIdIgnoresMathIds"
    /\ IF ev.c.op = "printAuto"
       THEN /\ Problems(ev) = {"printModel(auto ids) writes an id that is not unique"}
            /\ ev.pre[ev.c.m]["math"] # NoneS /\ PrintFreshButMath(ev.printedIds, ev.pre[ev.c.m])
       ELSE /\ ev.c.op \in AssignOps /\ ev.cur # NoneS
            /\ Problems(ev) = {"assigned id not fresh"}
            /\ LET pre == ev.pre[ev.cur] post == ev.post[ev.cur] IN
               /\ pre["math"] # NoneS
               /\ Fresh(ItemsOnly(pre), post)                                    \* fresh w.r.t. everything but the MathML id
               /\ \E i \in NewItems(pre, post) : post[i] = pre["math"]
Next == /\ l <= Len(TraceLog) /\ l' = l + 1
        /\ LET ev == TraceLog[l] IN
           IF ev.e = "Reset" THEN TRUE
           ELSE IF ev.e # "ann" THEN Verdict("bad", l, ev.sc, ev.e)
           ELSE IF Problems(ev) = {} THEN TRUE
           ELSE IF \E d \in KnownDeviations : Dev(d, ev) THEN Verdict("known", l, ev.sc, CHOOSE d \in KnownDeviations : Dev(d, ev))
           ELSE Verdict("bad", l, ev.sc, <<Problems(ev), ev.c>>)
Spec == Init /\ [][Next]_l
Accepted == LET d == TLCGet("stats").diameter IN PrintT(<<"DEPTH", d>>) /\ d - 1 = Len(TraceLog)
=============================================================================
