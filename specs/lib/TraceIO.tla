------------------------------ MODULE TraceIO ------------------------------
(* Plumbing shared by all trace-validation and scenario-generation specs.   *)
EXTENDS Naturals, Integers, Sequences, FiniteSets, TLC, Json, IOUtils

\* The recorded trace (one JSON object per line), path in env var TRACE.
TraceLog == ndJsonDeserialize(IOEnv.TRACE)

\* Emit one scenario as a JSON line.  Serialize() costs ~12 ms per call (it reopens the file), so scenarios are
\* printed on TLC's standard output instead and collected by bin/vlib.py:   <<"SCN", "<json>">>
EmitScenario(rec) == PrintT(<<"SCN", ToJson(rec)>>)

Range(f) == {f[x] : x \in DOMAIN f}
InSeq(s, e) == \E i \in DOMAIN s : s[i] = e
HasKey(r, k) == k \in DOMAIN r

\* Verdict lines parsed by bin/check (one line each):  "VERDICT|kind|line|scenario|what"
Verdict(kind, l, sc, what) == PrintT("VERDICT|" \o kind \o "|" \o ToString(l) \o "|" \o ToString(sc) \o "|" \o ToString(what))
=============================================================================
