------------------------------ MODULE TraceIO ------------------------------
(* Plumbing shared by all trace-validation and scenario-generation specs.   *)
EXTENDS Naturals, Integers, Sequences, FiniteSets, TLC, Json, IOUtils

\* The recorded trace (one JSON object per line), path in env var TRACE.
TraceLog == ndJsonDeserialize(IOEnv.TRACE)

\* Append one JSON line to the scenario file named by env var OUT (used from an INVARIANT / action, -workers 1).
EmitScenario(rec) ==
    Serialize(<<rec>>, IOEnv.OUT,
              [format |-> "NDJSON", charset |-> "UTF-8",
               openOptions |-> <<"WRITE", "CREATE", "APPEND">>])

Range(f) == {f[x] : x \in DOMAIN f}
InSeq(s, e) == \E i \in DOMAIN s : s[i] = e
HasKey(r, k) == k \in DOMAIN r

\* Verdict lines parsed by bin/check:  <<"VERDICT", kind, line, scenario, what>>
Verdict(kind, l, sc, what) == PrintT(<<"VERDICT", kind, l, sc, what>>)
=============================================================================
