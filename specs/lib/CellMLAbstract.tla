--------------------------- MODULE CellMLAbstract ---------------------------
(* Abstract CellML models over a bounded feature space (C02, C10, C11, C13,    *)
(* C14, C19).  A model is a record with the shape of the executor's canonical  *)
(* content record (harness/content.cpp); ModelOf(fv) builds it from a feature  *)
(* vector.  Characters TLC's JSON reader cannot carry are named tokens         *)
(* ({AMP}, {LT}, {GT}, {QUOT}, {APOS}, {EACUTE}) which the executor maps to    *)
(* real bytes; absent values are the string "none".                            *)
EXTENDS Naturals, Sequences, FiniteSets

NoneS == "none"
Classes == {"plain", "AMP", "LT", "GT", "QUOT", "APOS", "EACUTE", "MIX"}
Deco(cls) == CASE cls = "plain" -> ""
               [] cls = "AMP" -> "{AMP}b=1"
               [] cls = "LT" -> "{LT}b"
               [] cls = "GT" -> "b{GT}"
               [] cls = "QUOT" -> "{QUOT}q{QUOT}"
               [] cls = "APOS" -> "{APOS}s"
               [] cls = "EACUTE" -> "caf{EACUTE}"
               [] cls = "MIX" -> "a{AMP}{LT}{QUOT}{GT}{APOS}{EACUTE}"
Sites == {"none", "modelName", "modelId", "unitsName", "unitId", "compName", "compId", "encId", "varName", "varId",
          "varInit", "href", "importId", "importRef", "resetId", "tvId", "mapId", "connId", "unitRef"}
St(base, site, fv) == IF fv.site = site THEN base \o Deco(fv.cls) ELSE base
Id(base, site, fv) == IF fv.ids \/ fv.site = site THEN St(base, site, fv) ELSE NoneS

MML == "http://www.w3.org/1998/Math/MathML"
MathOpen == "{LT}math xmlns={QUOT}" \o MML \o "{QUOT} xmlns:cellml={QUOT}http://www.cellml.org/cellml/2.0#{QUOT}{GT}"
Cn(v, u) == "{LT}cn cellml:units={QUOT}" \o u \o "{QUOT}{GT}" \o v \o "{LT}/cn{GT}"
Ci(x) == "{LT}ci{GT}" \o x \o "{LT}/ci{GT}"
MathOpenBare == "{LT}math xmlns={QUOT}" \o MML \o "{QUOT}{GT}"          \* without the (possibly unused) cellml prefix declaration
MOpen(fv) == IF fv.mathNs = "bare" THEN MathOpenBare ELSE MathOpen
EqMath(fv, x, rhs) == MOpen(fv) \o "{LT}apply{GT}{LT}eq/{GT}" \o Ci(x) \o rhs \o "{LT}/apply{GT}{LT}/math{GT}"
ValMath(fv, rhs) == MOpen(fv) \o rhs \o "{LT}/math{GT}"

Var(n, id, units, init, iface) == [name |-> n, id |-> id, units |-> units, init |-> init, iface |-> iface]
Unit(ref, prefix, exp, mult, id) == [ref |-> ref, prefix |-> prefix, exp |-> exp, mult |-> mult, id |-> id]

\* ------------------------------------------------------------------ feature vectors
\* fv: [site, cls, ids, prefix, exp, mult, depth, nmaps, mapIds, connId, pairs, reset, imports]
FV0 == [site |-> "none", cls |-> "plain", ids |-> FALSE, prefix |-> NoneS, exp |-> "1", mult |-> "1", depth |-> 2,
        nmaps |-> 1, mapIds |-> FALSE, connId |-> FALSE, pairs |-> 1, reset |-> "none", imports |-> "none", twin |-> FALSE,
        mathNs |-> "decl"]   \* "bare": math written without the xmlns:cellml declaration (not varied: used by C14's expectation)
Dims == [site |-> Sites, cls |-> Classes, ids |-> BOOLEAN, prefix |-> {NoneS, "milli", "3", "-2"}, exp |-> {"1", "2", "-1", "0.5", "0.3333333333333333", "1.0000000000000002", "0.9999999999999999"},   \* incl. the neighbours of the default
         mult |-> {"1", "1000", "0.001", "2.5", "0.30000000000000004", "123456789.12345679", "1e-05", "-6.02214076e+23", "1.0000000000000002", "0.9999999999999999", "4.94065645841247e-324", "1.7976931348623157e+308"},   \* incl. reals that need 16 / 17 significant digits
         depth |-> 1..3, nmaps |-> 0..3, mapIds |-> BOOLEAN, connId |-> BOOLEAN, pairs |-> 1..3,
         reset |-> {"none", "ordered", "unordered", "two", "selfTest"}, imports |-> {"none", "units", "comp", "both", "twoSources"},
         twin |-> BOOLEAN]   \* a top-level component that is a structural look-alike of the nested c3 (same name: not a valid model)
DimNames == DOMAIN Dims
\* all vectors differing from FV0 in at most the given one / two / three dimensions
Vary1(d) == {[FV0 EXCEPT ![d] = v] : v \in Dims[d]}
Vary2(d1, d2) == UNION {{[f EXCEPT ![d2] = v] : v \in Dims[d2]} : f \in Vary1(d1)}
Vary3(d1, d2, d3) == UNION {{[f EXCEPT ![d3] = v] : v \in Dims[d3]} : f \in Vary2(d1, d2)}
Singles == UNION {Vary1(d) : d \in DimNames}
Pairs == UNION {Vary2(d1, d2) : d1, d2 \in DimNames}
Triples(ds) == UNION {Vary3(d1, d2, d3) : d1, d2, d3 \in ds}
Sensible(fv) == (fv.cls # "plain") <=> (fv.site # "none")

\* ------------------------------------------------------------------ the model of a feature vector
\* (math is user-supplied XML text: it only mentions undecorated names, so that it stays well-formed)
UnitsOf(fv) ==
    <<[name |-> St("u1", "unitsName", fv), id |-> Id("u1id", "unitsId", fv), imp |-> NoneS, impId |-> NoneS, ref |-> NoneS,
       kids |-> <<Unit("second", fv.prefix, fv.exp, fv.mult, Id("k1", "unitId", fv)),
                  Unit("metre", NoneS, "-1", "1", NoneS)>>],
      [name |-> "u2", id |-> NoneS, imp |-> NoneS, impId |-> NoneS, ref |-> NoneS,
       kids |-> <<Unit(St("u1", "unitsName", fv), "kilo", "2", "1", NoneS)>>]>>
    \o (IF fv.imports \in {"units", "both", "twoSources"}
        THEN <<[name |-> "iu", id |-> Id("iuid", "iuId", fv), imp |-> St("lib.cellml", "href", fv), impId |-> Id("imp1", "importId", fv),
                ref |-> St("u", "importRef", fv), kids |-> <<>>]>>
        ELSE <<>>)

U1(fv) == St("u1", "unitsName", fv)
VarsOf(c, fv) ==
    <<Var(St("x", "varName", fv), Id(c \o "x", "varId", fv), U1(fv), St("1.5", "varInit", fv), "public_and_private"),
      Var("y", Id(c \o "y", "varId2", fv), "dimensionless", NoneS, "public_and_private"),
      Var("z", NoneS, "second", "0", "public")>>
ResetRec(order, fv, k) ==
    [order |-> order, id |-> Id("rid" \o k, "resetId", fv), var |-> St("x", "varName", fv), tvar |-> "y",
     tv |-> ValMath(fv, Cn("3", "dimensionless")), tvid |-> Id("tvid" \o k, "tvId", fv),
     rv |-> ValMath(fv, Cn("4", "u2")), rvid |-> Id("rvid" \o k, "rvId", fv)]
ResetsOf(fv) == CASE fv.reset = "none" -> <<>>
                  [] fv.reset = "ordered" -> <<ResetRec("2", fv, "a")>>
                  [] fv.reset = "unordered" -> <<ResetRec("unset", fv, "a")>>
                  [] fv.reset = "two" -> <<ResetRec("1", fv, "a"), ResetRec("-7", fv, "b")>>
                  \* a reset that tests the very variable it resets (variable and test_variable are one object)
                  [] fv.reset = "selfTest" -> <<[ResetRec("3", fv, "a") EXCEPT !.tvar = St("x", "varName", fv)]>>
\* an encapsulation id exists only on components that take part in the encapsulation hierarchy
Comp(n, parent, fv, math, resets, inHierarchy) ==
    [name |-> n, id |-> Id(n \o "id", "compId", fv), encId |-> IF inHierarchy THEN Id(n \o "enc", "encId", fv) ELSE NoneS, imp |-> NoneS, impId |-> NoneS, ref |-> NoneS,
     parent |-> parent, math |-> math, vars |-> VarsOf(n, fv), resets |-> resets]
C1(fv) == St("c1", "compName", fv)
CompsOf(fv) ==
    <<Comp(C1(fv), NoneS, fv, EqMath(fv, "y", Cn("1", "u2")), ResetsOf(fv), fv.depth >= 2),
      Comp("d1", NoneS, fv, NoneS, <<>>, FALSE)>>
    \o (IF fv.depth >= 2 THEN <<Comp("c2", C1(fv), fv, EqMath(fv, "y", Ci("z")), <<>>, TRUE)>> ELSE <<>>)
    \o (IF fv.depth >= 3 THEN <<Comp("c3", "c2", fv, NoneS, <<>>, TRUE)>> ELSE <<>>)
    \o (IF fv.twin THEN <<Comp("c3", NoneS, fv, NoneS, <<>>, fv.depth >= 3)>> ELSE <<>>)
    \o (IF fv.imports \in {"comp", "both", "twoSources"}
        THEN <<[name |-> "ic", id |-> Id("icid", "icId", fv), encId |-> NoneS,
                imp |-> IF fv.imports = "twoSources" THEN "other.cellml" ELSE St("lib.cellml", "href", fv),
                impId |-> IF fv.imports = "twoSources" THEN Id("imp2", "importId2", fv) ELSE Id("imp1", "importId", fv),
                ref |-> "c", parent |-> NoneS, math |-> NoneS,
                \* placeholder variable: a name only; it exists only as the partner of a map_variables (CellML has no other way to write it)
                vars |-> IF fv.nmaps >= 1 THEN <<Var("p", NoneS, NoneS, NoneS, NoneS)>> ELSE <<>>, resets |-> <<>>]>>
        ELSE <<>>)
MapNames(fv) == <<St("x", "varName", fv), "y", "z">>
Maps(fv, n) == [i \in 1..n |-> [v1 |-> MapNames(fv)[i], v2 |-> MapNames(fv)[i],
                                id |-> IF fv.mapIds \/ fv.site = "mapId" THEN St("map" \o MapNames(FV0)[i], "mapId", fv) ELSE NoneS]]
Conn(a, b, fv, n, k) == [c1 |-> a, c2 |-> b, id |-> IF fv.connId \/ fv.site = "connId" THEN St("conn" \o k, "connId", fv) ELSE NoneS, maps |-> Maps(fv, n)]
\* connections are normalised with c1 < c2 by name, as the content record does
Ordered(a, b, fv, n, k) == Conn(a, b, fv, n, k)
ConnsOf(fv) ==
    (IF fv.nmaps >= 1 THEN <<Ordered(C1(fv), "d1", fv, fv.nmaps, "a")>> ELSE <<>>)
    \o (IF fv.pairs = 2 /\ fv.depth >= 2 /\ fv.nmaps >= 1 THEN <<Ordered(C1(fv), "c2", fv, 1, "b")>> ELSE <<>>)
    \* pairs = 3 closes a cycle of equivalences: c1.x - d1.x, c1.x - c2.x, c2.x - d1.x
    \o (IF fv.pairs = 3 /\ fv.depth >= 2 /\ fv.nmaps >= 1 THEN <<Ordered(C1(fv), "c2", fv, 1, "b"), Ordered("c2", "d1", fv, 1, "c")>> ELSE <<>>)
    \o (IF fv.imports \in {"comp", "both", "twoSources"} /\ fv.nmaps >= 1
        \* the placeholder variable p of the imported component is the partner of two variables (two connections name it)
        THEN <<[c1 |-> "d1", c2 |-> "ic", id |-> NoneS, maps |-> <<[v1 |-> "y", v2 |-> "p", id |-> NoneS]>>],
               [c1 |-> C1(fv), c2 |-> "ic", id |-> NoneS, maps |-> <<[v1 |-> "y", v2 |-> "p", id |-> NoneS]>>]>> ELSE <<>>)
ImportsOf(fv) ==
    (IF fv.imports \in {"units", "comp", "both", "twoSources"} THEN {[url |-> St("lib.cellml", "href", fv), id |-> Id("imp1", "importId", fv)]} ELSE {})
    \cup (IF fv.imports = "twoSources" THEN {[url |-> "other.cellml", id |-> Id("imp2", "importId2", fv)]} ELSE {})
ModelOf(fv) ==
    [name |-> St("m", "modelName", fv), id |-> Id("mid", "modelId", fv), encId |-> IF fv.depth >= 2 THEN Id("menc", "modelEncId", fv) ELSE NoneS,
     units |-> UnitsOf(fv), comps |-> CompsOf(fv), conns |-> ConnsOf(fv)]

\* ------------------------------------------------------------------ comparison up to child order
SR(s) == {s[i] : i \in DOMAIN s}
\* children are compared as bags: order is insignificant, multiplicity is not (a duplicated variable is a difference)
Bag(s) == [x \in SR(s) |-> Cardinality({i \in DOMAIN s : s[i] = x})]
NormUnits(u) == [u EXCEPT !.kids = Bag(@)]
NormComp(c) == [c EXCEPT !.vars = Bag(@), !.resets = Bag(@)]
NormConn(c) == [c EXCEPT !.maps = Bag(@)]
Norm(m) == [name |-> m.name, id |-> m.id, encId |-> m.encId,
            units |-> Bag([i \in DOMAIN m.units |-> NormUnits(m.units[i])]),
            comps |-> Bag([i \in DOMAIN m.comps |-> NormComp(m.comps[i])]),
            conns |-> Bag([i \in DOMAIN m.conns |-> NormConn(m.conns[i])])]
SameCounts(a, b) == Len(a.units) = Len(b.units) /\ Len(a.comps) = Len(b.comps) /\ Len(a.conns) = Len(b.conns)
SameContent(a, b) == SameCounts(a, b) /\ Norm(a) = Norm(b)
=============================================================================
