----------------------------- MODULE LoggerObs -----------------------------
(* C15: coherence of a logger observation record taken through the public     *)
(* getters after a service call (harness/logobs.cpp).                          *)
EXTENDS Naturals, Sequences
PositionsOf(levels, lv) ==
    SelectSeq([k \in 1..Len(levels) |-> k - 1], LAMBDA p : levels[p + 1] = lv)
LevelsOk(o) == \A k \in DOMAIN o.levels : o.levels[k] \in {"E", "W", "M"}
LogCoherent(o) ==
    /\ o.n = Len(o.levels)
    /\ LevelsOk(o)
    /\ o.n = o.ne + o.nw + o.nm                    \* issueCount = errorCount + warningCount + messageCount
    /\ o.errs = PositionsOf(o.levels, "E")         \* error(i) enumerates exactly the errors, in order
    /\ o.warns = PositionsOf(o.levels, "W")
    /\ o.msgs = PositionsOf(o.levels, "M")
    /\ Len(o.errs) = o.ne /\ Len(o.warns) = o.nw /\ Len(o.msgs) = o.nm
    /\ o.oob                                       \* out-of-range indices return null
    /\ o.descOk /\ o.urlOk /\ o.itemOk             \* description, rule heading/url, item matches its type
LogEmpty(o) == o.n = 0
LogHasError(o) == o.ne > 0
=============================================================================
