------------------------------- MODULE Repair -------------------------------
(* C19: Model::fixVariableInterfaces, Model::linkUnits, Model::clean.          *)
EXTENDS Naturals, Sequences, FiniteSets, TraceIO
NoneS == "none"

\* ================================================================ fixVariableInterfaces
\* component tree: a (top) > b > c ; d (top).  One variable per component, plus the parentless variable "p".
ParentOf == [a |-> NoneS, b |-> "a", c |-> "b", d |-> NoneS]
CompsF == DOMAIN ParentOf
VarsF == CompsF \cup {"p"}                       \* variable x lives in component x; p has no component
Siblings(x, y) == x # y /\ ParentOf[x] = ParentOf[y]
ChildOf(x, y) == ParentOf[x] = y                 \* x is a child of y
Reachable(x, y) == x \in CompsF /\ y \in CompsF /\ (Siblings(x, y) \/ ChildOf(x, y) \/ ChildOf(y, x))
CandidatePairs == {<<"a", "d">>, <<"a", "b">>, <<"b", "c">>, <<"a", "c">>, <<"d", "b">>, <<"d", "p">>, <<"b", "p">>}
Neighbours(E, v) == {w \in VarsF : <<v, w>> \in E \/ <<w, v>> \in E}
Broken(E, v) == \E w \in Neighbours(E, v) : ~Reachable(v, w)          \* unreachable component or parentless variable
NeedsPublic(E, v) == \E w \in Neighbours(E, v) : Reachable(v, w) /\ (Siblings(v, w) \/ ChildOf(v, w))
NeedsPrivate(E, v) == \E w \in Neighbours(E, v) : Reachable(v, w) /\ ChildOf(w, v)
Required(E, v) == IF NeedsPublic(E, v) /\ NeedsPrivate(E, v) THEN "public_and_private"
                  ELSE IF NeedsPublic(E, v) THEN "public" ELSE IF NeedsPrivate(E, v) THEN "private" ELSE NoneS
Permits(iface, req) == req = NoneS \/ iface = req \/ iface = "public_and_private"
IfaceStrings == <<NoneS, "public", "private", "public_and_private", "none_", "bogus">>    \* NoneS: attribute absent; "none_": the string "none"
FixProblems(ev) ==
    LET E == {<<ev.pairs[i][1], ev.pairs[i][2]>> : i \in DOMAIN ev.pairs}
        inModel == {v \in CompsF : Neighbours(E, v) # {}}
        anyBroken == \E v \in inModel : Broken(E, v)
    IN (IF ev.r = ~anyBroken THEN {} ELSE {"fixVariableInterfaces result is not (no unreachable / parentless equivalence)"})
       \cup (IF \A v \in inModel : ~Broken(E, v) => Permits(ev.post[v], Required(E, v)) THEN {} ELSE {"a connected variable is left with an insufficient interface"})
       \cup (IF \A v \in CompsF : (~Broken(E, v) /\ Permits(ev.pre[v], Required(E, v))) => ev.post[v] = ev.pre[v] THEN {} ELSE {"a sufficient interface was changed"})
       \cup (IF ev.r => ev.interfaceIssues = 0 THEN {} ELSE {"validator still raises an interface issue after a true result"})

\* ================================================================ linkUnits
\* each variable names units in one of these ways; u1 is a units of the model
Situations == {"own", "string", "missing", "foreignSame", "foreignOther", "standard", "nounits"}
Linkable(s) == s \in {"own", "string", "foreignSame", "standard", "nounits"}
LinkProblems(ev) ==
    (IF ev.r => (~ev.unlinkedAfter /\ \A i \in DOMAIN ev.sit : ev.sit[i] \in {"own", "string", "foreignSame"} => ev.holdsOwn[i]) THEN {}
     ELSE {"linkUnits returned true but a variable does not hold the model's own units object"})
    \cup (IF ev.contentUnchanged THEN {} ELSE {"linkUnits changed the content of the model"})

\* ================================================================ clean
\* a forest of up to three nodes (shape), each of a kind; "empty" = no name, id, variables, resets, math, import
Kinds == {"empty", "named", "idOnly", "varOnly", "mathOnly", "resetOnly", "import"}
UnitKinds == {"empty", "named", "idOnly", "childOnly", "import"}
Shapes == [chain |-> <<0, 1, 2>>, fork |-> <<0, 1, 1>>, flat |-> <<0, 0, 0>>, pair |-> <<0, 1, 0>>]    \* parent index (0 = model) of nodes 1..3
RECURSIVE Removed(_, _, _, _)
Removed(shape, kinds, i, n) ==      \* node i disappears iff it is empty and all its children disappear
    IF n = 0 THEN FALSE
    ELSE kinds[i] = "empty" /\ \A j \in DOMAIN shape : shape[j] = i => Removed(shape, kinds, j, n - 1)
CleanProblems(ev) ==
    LET shape == Shapes[ev.shape] IN
    (IF \A i \in DOMAIN shape : ev.present[i] = ~(Removed(shape, ev.kinds, i, 4) \/ \E k \in DOMAIN shape : k # i /\ Removed(shape, ev.kinds, k, 4) /\ (shape[i] = k \/ (shape[i] # 0 /\ shape[shape[i]] = k)))
     THEN {} ELSE {"clean() did not remove exactly the empty components"})
    \cup (IF \A i \in DOMAIN ev.ukinds : ev.upresent[i] = (ev.ukinds[i] # "empty") THEN {} ELSE {"clean() did not remove exactly the empty units"})
    \cup (IF ev.restUnchanged THEN {} ELSE {"clean() touched something that is not empty"})
=============================================================================
