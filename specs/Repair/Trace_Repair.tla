---------------------------- MODULE Trace_Repair ----------------------------
EXTENDS Repair, KnownFindings
VARIABLE l
Init == l = 1
Problems(ev) == CASE ev.e = "fixif" -> FixProblems(ev) [] ev.e = "link" -> LinkProblems(ev) [] ev.e = "clean" -> CleanProblems(ev) [] OTHER -> {ev.e}
Next == /\ l <= Len(TraceLog) /\ l' = l + 1
        /\ LET ev == TraceLog[l] IN
           IF ev.e = "Reset" THEN TRUE
           ELSE IF Problems(ev) = {} THEN TRUE
           ELSE Verdict("bad", l, ev.sc, <<Problems(ev), IF "c" \in DOMAIN ev THEN ev.c ELSE ev.e>>)
Spec == Init /\ [][Next]_l
Accepted == LET d == TLCGet("stats").diameter IN PrintT(<<"DEPTH", d>>) /\ d - 1 = Len(TraceLog)
=============================================================================
