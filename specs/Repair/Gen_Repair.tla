----------------------------- MODULE Gen_Repair -----------------------------
EXTENDS Repair, SequencesExt
VARIABLE sc
Rot(k) == [v \in VarsF |-> LET idx == CHOOSE i \in 1..5 : <<"a", "b", "c", "d", "p">>[i] = v IN IfaceStrings[((idx + k) % 6) + 1]]
Uniform(s) == [v \in VarsF |-> s]
FixScenarios == {[op |-> "fixif", pairs |-> SetToSeq(E), ifaces |-> f] : E \in SUBSET CandidatePairs,
                 f \in {Uniform(IfaceStrings[i]) : i \in 1..6} \cup {Rot(k) : k \in 0..5}}
LinkScenarios == {[op |-> "link", sit |-> <<s1, s2, s3>>] : s1 \in Situations, s2 \in Situations, s3 \in {"own", "missing", "foreignSame"}}
CleanScenarios == {[op |-> "clean", shape |-> sh, kinds |-> <<k1, k2, k3>>, ukinds |-> <<u1, u2>>] :
                    sh \in DOMAIN Shapes, k1 \in Kinds, k2 \in Kinds, k3 \in {"empty", "named", "varOnly"}, u1 \in UnitKinds, u2 \in {"empty", "named"}}
Init == sc \in FixScenarios \cup LinkScenarios \cup CleanScenarios
Next == UNCHANGED sc
Spec == Init /\ [][Next]_sc
Emit == EmitScenario(sc)
=============================================================================
