SPECIFICATION Spec
CONSTANTS MaxLen = 5
 EmitFrom = 99
 NeedDigit = TRUE
INVARIANTS MechAgrees GrammarSane
CHECK_DEADLOCK FALSE
