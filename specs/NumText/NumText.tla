------------------------------ MODULE NumText ------------------------------
(* C16: the CellML numeric-text grammar, declaratively (Ref) and as a          *)
(* transcription of the library's hand-written recognisers (Mech).             *)
(* A string is a sequence of symbol names: "0","7","+","-",".","e","E","SP","a". *)
EXTENDS Naturals, Integers, Sequences, FiniteSets

Alphabet == {"0", "7", "+", "-", ".", "e", "E", "SP", "a"}
Digit(c) == c \in {"0", "1", "2", "3", "4", "5", "6", "7", "8", "9"}

Digits(s) == Len(s) >= 1 /\ \A i \in DOMAIN s : Digit(s[i])

\* ---------------------------------------------------------------- Ref
IsInt(s) == \/ Digits(s)
            \/ Len(s) >= 2 /\ s[1] \in {"+", "-"} /\ Digits(Tail(s))

BasicReal(s) ==
    LET t == IF s # <<>> /\ s[1] = "-" THEN Tail(s) ELSE s
        dots == {i \in DOMAIN t : t[i] = "."}
    IN /\ Cardinality(dots) <= 1
       /\ \A i \in DOMAIN t : Digit(t[i]) \/ t[i] = "."
       /\ \E i \in DOMAIN t : Digit(t[i])

IsReal(s) == \/ BasicReal(s)
             \/ \E k \in DOMAIN s : /\ s[k] \in {"e", "E"}
                                    /\ BasicReal(SubSeq(s, 1, k - 1))
                                    /\ IsInt(SubSeq(s, k + 1, Len(s)))

\* XML whitespace stripping of text content (cn children): leading/trailing SP removed
RECURSIVE StripL(_)
StripL(s) == IF s # <<>> /\ s[1] = "SP" THEN StripL(Tail(s)) ELSE s
RECURSIVE StripR(_)
StripR(s) == IF s # <<>> /\ s[Len(s)] = "SP" THEN StripR(SubSeq(s, 1, Len(s) - 1)) ELSE s
Strip(s) == StripR(StripL(s))

\* ---------------------------------------------------------------- value decomposition
\* For an accepted real: sign, digit string without the point (as a sequence), decimal exponent adjustment
\* (number of digits after the point, to subtract) and the e-notation part as a sequence (possibly empty).
EPos(s) == IF \E k \in DOMAIN s : s[k] \in {"e", "E"}
           THEN CHOOSE k \in DOMAIN s : s[k] \in {"e", "E"} ELSE 0
Significand(s) == IF EPos(s) = 0 THEN s ELSE SubSeq(s, 1, EPos(s) - 1)
ExpPart(s) == IF EPos(s) = 0 THEN <<>> ELSE SubSeq(s, EPos(s) + 1, Len(s))
Neg(s) == s # <<>> /\ s[1] = "-"
Unsigned(s) == IF s # <<>> /\ s[1] \in {"-", "+"} THEN Tail(s) ELSE s
DigitsOnly(s) == SelectSeq(s, Digit)
FracDigits(s) == LET t == Unsigned(Significand(s))
                 IN IF \E i \in DOMAIN t : t[i] = "."
                    THEN Len(t) - (CHOOSE i \in DOMAIN t : t[i] = ".") ELSE 0
Decomp(s) == [neg |-> Neg(s), digits |-> DigitsOnly(Significand(s)),
              frac |-> FracDigits(s), exp |-> ExpPart(s)]
\* "extreme": magnitude surely outside double / int range.  Over the digits {0, 7} an exponent is either at most 77 (in range
\* with any generated significand) or at least 700 in absolute value once leading zeros are dropped (overflow / underflow);
\* nothing in between is generated.
RECURSIVE StripZeros(_)
StripZeros(d) == IF d # <<>> /\ d[1] = "0" THEN StripZeros(Tail(d)) ELSE d
ExtremeReal(s) == Len(StripZeros(DigitsOnly(ExpPart(s)))) >= 3
ExtremeInt(s) == Len(DigitsOnly(s)) >= 11

\* ---------------------------------------------------------------- Mech (utilities.cpp)
MechNonNegInt(s) == s # <<>> /\ \A i \in DOMAIN s : Digit(s[i])
MechInt(s) == IF s # <<>> /\ s[1] \in {"-", "+"} THEN MechNonNegInt(Tail(s)) ELSE MechNonNegInt(s)
RmAt(s, i) == SubSeq(s, 1, i - 1) \o SubSeq(s, i + 1, Len(s))
\* isCellMLBasicReal: erase the single ".", erase a leading "-" (tested on the original), all_of digit.
\* hasDigit is TRUE in a tree whose recogniser requires a digit (the fix), FALSE for the pinned tree.
MechBasicReal(s, needDigit) ==
    /\ s # <<>>
    /\ LET dots == {i \in DOMAIN s : s[i] = "."} IN
       /\ Cardinality(dots) < 2
       /\ LET beginsMinus == s[1] = "-"
              t1 == IF Cardinality(dots) = 1 THEN RmAt(s, CHOOSE i \in dots : TRUE) ELSE s
              t2 == IF beginsMinus THEN Tail(t1) ELSE t1   \* erase(0,1) after the "." was erased
          IN /\ \A i \in DOMAIN t2 : Digit(t2[i])
             /\ needDigit => t2 # <<>>
MechReal(s, needDigit) ==
    /\ s # <<>>
    /\ LET es == {i \in DOMAIN s : s[i] \in {"e", "E"}} IN
       /\ Cardinality(es) < 2
       /\ IF Cardinality(es) = 1
          THEN LET k == CHOOSE i \in es : TRUE
               IN MechBasicReal(SubSeq(s, 1, k - 1), needDigit) /\ MechInt(SubSeq(s, k + 1, Len(s)))
          ELSE MechBasicReal(s, needDigit)

\* ---------------------------------------------------------------- positions
Positions == {"exp", "mult", "prefix", "init", "cn", "sepman", "sepexp", "order"}
RealPos == {"exp", "mult", "init"}
\* what the position accepts
Accepts(pos, s) ==
    CASE pos \in RealPos -> IsReal(s)
      [] pos \in {"cn", "sepman"} -> BasicReal(Strip(s))
      [] pos = "sepexp" -> IsInt(Strip(s))
      [] pos \in {"prefix", "order"} -> IsInt(s)
\* the rule an unacceptable string must be reported under, per position
PosRule(pos) ==
    CASE pos = "exp" -> "UNIT_ATTRIBUTE_EXPONENT_VALUE"
      [] pos = "mult" -> "UNIT_ATTRIBUTE_MULTIPLIER_VALUE"
      [] pos = "prefix" -> "UNIT_ATTRIBUTE_PREFIX_VALUE"
      [] pos = "init" -> "VARIABLE_INITIAL_VALUE_VALUE"
      [] pos \in {"cn", "sepman", "sepexp"} -> "MATH_CN_FORMAT"
      [] pos = "order" -> "RESET_ORDER_VALUE"
=============================================================================
