SPECIFICATION Spec
CONSTANTS MaxLen = 4
 EmitFrom = 99
 NeedDigit = TRUE
INVARIANTS MechAgrees GrammarSane
CHECK_DEADLOCK FALSE
