SPECIFICATION Spec
CONSTANTS MaxLen = 3
 EmitFrom = 0
 NeedDigit = TRUE
INVARIANTS Emit
CHECK_DEADLOCK FALSE
