---------------------------- MODULE Gen_NumStruct ----------------------------
(* Structured longer numbers and extreme magnitudes for C16 (what random long  *)
(* strings would almost never hit): sign x integer part x fraction x exponent. *)
EXTENDS NumText, TraceIO
Signs == {<<>>, <<"-">>, <<"+">>}
IntParts == {<<>>, <<"0">>, <<"7">>, <<"1", "2", "3", "4", "5", "6", "7", "8", "9">>, <<"0", "0", "7">>,
             <<"9", "9", "9", "9", "9", "9", "9", "9", "9", "9", "9", "9">>}
Fracs == {<<>>, <<".">>, <<".", "5">>, <<".", "0", "0", "1", "2", "5">>, <<".", "5", ".">>}
Exps == {<<>>, <<"e">>, <<"e", "5">>, <<"E", "-", "7">>, <<"e", "+", "3">>, <<"e", "9", "9", "9", "9">>,
         <<"E", "-", "9", "9", "9", "9", "9">>, <<"e", "1", "e", "1">>, <<"e", "1", ".", "5">>, <<"e", "2", "0">>}
VARIABLE s
Init == s \in {a \o b \o c \o d : a \in Signs, b \in IntParts, c \in Fracs, d \in Exps}
Next == UNCHANGED s
Spec == Init /\ [][Next]_s
Emit == EmitScenario([s |-> s, real |-> IsReal(s), int |-> IsInt(s), dec |-> Decomp(s)])
=============================================================================
