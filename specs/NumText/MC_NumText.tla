----------------------------- MODULE MC_NumText -----------------------------
(* Exhaustive enumeration of all strings up to MaxLen over the alphabet:         *)
(*  - Mech (transcribed recognisers) = Ref (grammar) on every string   (MC)      *)
(*  - one scenario per string, with the spec-computed value decomposition (Gen)  *)
EXTENDS NumText, TraceIO
CONSTANTS MaxLen,      \* longest string
          EmitFrom,    \* emit scenarios for strings of length >= EmitFrom ..
          NeedDigit    \* the recogniser requires a digit in the significand (TRUE after the fix)
VARIABLE s
Init == s = <<>>
Next == Len(s) < MaxLen /\ \E c \in Alphabet : s' = Append(s, c)
Spec == Init /\ [][Next]_s

MechAgrees == /\ MechReal(s, NeedDigit) = IsReal(s)
              /\ MechBasicReal(s, NeedDigit) = BasicReal(s)
              /\ MechInt(s) = IsInt(s)
\* the grammar itself: sanity theorems checked on every string
GrammarSane == /\ IsInt(s) => (IsReal(s) \/ s[1] = "+")
               /\ BasicReal(s) => IsReal(s)
               /\ IsReal(s) => \E i \in DOMAIN s : Digit(s[i])
               /\ (IsReal(s) /\ EPos(s) = 0) => BasicReal(s)

Scenario == [s |-> s, real |-> IsReal(s), int |-> IsInt(s), dec |-> Decomp(s)]
Emit == (Len(s) >= EmitFrom /\ "OUT" \in DOMAIN IOEnv) => EmitScenario(Scenario)
=============================================================================
