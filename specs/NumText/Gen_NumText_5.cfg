SPECIFICATION Spec
CONSTANTS MaxLen = 5
 EmitFrom = 0
 NeedDigit = TRUE
INVARIANTS Emit
CHECK_DEADLOCK FALSE
