---------------------------- MODULE Trace_NumText ----------------------------
(* Trace validation for C16: every recorded placement of a string in a numeric  *)
(* position must be what the grammar prescribes.                                 *)
EXTENDS NumText, TraceIO, LoggerObs, KnownFindings
VARIABLE l
Init == l = 1

Reported(ev) == InSeq(ev.prules, PosRule(ev.pos)) \/ InSeq(ev.vrules, PosRule(ev.pos))
Extreme(ev) == IF ev.pos \in {"prefix", "order", "sepexp"} THEN ExtremeInt(ev.s) ELSE ExtremeReal(ev.s)
Logs(ev) == LogCoherent(ev.plog) /\ LogCoherent(ev.vlog) /\ ("alog" \in DOMAIN ev => LogCoherent(ev.alog))

Ok(ev) ==
    /\ ev.e = "place"
    /\ ev.dec = Decomp(ev.s)                       \* the echoed expectation is the spec's
    /\ Logs(ev)
    /\ IF Accepts(ev.pos, ev.s)
       THEN IF Extreme(ev)
            THEN (Reported(ev) \/ (ev.hasVal => ev.valOk))     \* out of range: reported, or converted correctly
                 \* an initial value is kept as text, nothing shows a conversion: out of range is reported (a zero significand is 0
                 \* whatever the exponent; an exponent that is extreme and negative underflows, a positive one overflows)
                 /\ ((ev.pos = "init" /\ StripZeros(DigitsOnly(Significand(ev.s))) # <<>>) => Reported(ev))
            ELSE ~Reported(ev) /\ ev.valOk /\ ev.rtOk /\ (ev.pos \in {"exp", "mult", "order"} => ev.hasVal)
       ELSE Reported(ev)                           \* rejected text is reported as an issue under the position's rule

Why(ev) == IF ev.e # "place" THEN ev.e
           ELSE IF ~Logs(ev) THEN "incoherent issue list"
           ELSE IF Accepts(ev.pos, ev.s) THEN "grammatical number not accepted / wrong value"
           ELSE "ungrammatical number accepted silently"

\* Known deviations (enabled only when listed in KNOWN_FINDINGS.txt)
Dev(d, ev) == FALSE

Next == /\ l <= Len(TraceLog)
        /\ l' = l + 1
        /\ LET ev == TraceLog[l] IN
           IF ev.e = "Reset" THEN TRUE
           ELSE IF Ok(ev) THEN (Accepts(ev.pos, ev.s) => Verdict("nontrivial", l, ev.sc, ev.pos))
           ELSE IF \E d \in KnownDeviations : Dev(d, ev)
                THEN Verdict("known", l, ev.sc, CHOOSE d \in KnownDeviations : Dev(d, ev))
                ELSE Verdict("bad", l, ev.sc, Why(ev))
Spec == Init /\ [][Next]_l
Accepted == LET d == TLCGet("stats").diameter IN PrintT(<<"DEPTH", d>>) /\ d - 1 = Len(TraceLog)
=============================================================================
