SPECIFICATION Spec
CONSTANTS MaxLen = 4
 EmitFrom = 0
 NeedDigit = TRUE
INVARIANTS Emit
CHECK_DEADLOCK FALSE
