SPECIFICATION Spec
CONSTANT Mode = "C17"
POSTCONDITION Accepted
CHECK_DEADLOCK FALSE
