-------------------------------- MODULE Trees --------------------------------
(* The expression trees of the bounded scope: every (parent operator, child    *)
(* operator, side) pattern over arithmetic, relational and logical operators,  *)
(* unary operators inside and outside, piecewise forms, qualifiers, and the     *)
(* transcendental functions at their exact points.                              *)
EXTENDS Expr
A == Ci("a")
B == Ci("b")
C == Ci("c")
Arith == {"plus", "minus", "times", "divide", "power", "rem", "min", "max"}
Unary == {"minus", "abs", "floor", "ceiling", "plus"}
Rels == {"eq", "neq", "lt", "leq", "gt", "geq"}
Logic == {"and", "or", "xor"}
Bin(op, x, y) == N(op, <<x, y>>)
Un(op, x) == N(op, <<x>>)
Arith2 == UNION {{Bin(p, Bin(c, A, B), C), Bin(p, A, Bin(c, B, C)), Bin(p, Bin(c, A, B), Bin(c, C, A))} : p \in Arith, c \in Arith}
Nary == {N(op, <<A, B, C>>) : op \in {"plus", "times", "min", "max", "and", "or", "xor"}} \cup {N("times", <<A, Bin("plus", B, C), A>>), N("plus", <<A, Bin("minus", B, C), Un("minus", A)>>)}
Unary2 == UNION {{Un(u, Bin(c, A, B)), Bin(c, Un(u, A), B), Bin(c, A, Un(u, B)), Un(u, Un("minus", A))} : u \in Unary, c \in Arith}
           \cup {Bin("divide", A, Un("minus", Bin("times", B, C))), Bin("power", Un("minus", A), Cn(2, 1)), Un("minus", Bin("power", A, Cn(2, 1))),
                 Bin("minus", A, Un("minus", B)), Bin("times", Un("minus", A), Un("minus", B)), Bin("power", A, Un("minus", Cn(2, 1)))}
Rel1 == {Bin(r, x, y) : r \in Rels, x \in {A, B}, y \in {B, C, Cn(2, 1)}}
Logic2 == UNION {{Bin(g, Bin(r, A, B), Bin(r, B, C)), Un("not", Bin(g, Bin(r, A, B), Bin("lt", B, C))), Bin(g, Un("not", Bin(r, A, B)), Bin("gt", A, C)),
                  Bin(g, Bin(r, A, B), Un("not", Bin("gt", A, C)))} : g \in Logic, r \in {"lt", "eq", "geq"}}
          \cup UNION {{Bin(g, Bin(h, Bin("lt", A, B), Bin("gt", B, C)), Bin("eq", A, C)), Bin(g, Bin("lt", A, B), Bin(h, Bin("gt", B, C), Bin("eq", A, C)))} : g \in Logic, h \in Logic}
          \cup {Un("not", Un("not", Bin("lt", A, B))), Un("not", Bin("lt", A, B)), Un("not", Bin("eq", A, A))}
RelNest == UNION {{Bin(r, A, Bin(s, B, C)), Bin(r, Bin(s, A, B), C)} : r \in {"lt", "eq", "gt"}, s \in {"lt", "geq"}}
           \cup UNION {{Bin(p, A, Bin(r, B, C)), Bin(p, Bin(r, A, B), C), Bin(r, Bin(p, A, B), C), Bin(r, A, Bin(p, B, C))} : p \in {"plus", "minus", "times", "divide"}, r \in {"lt", "geq", "neq"}}
           \cup {Bin(g, Bin("plus", A, B), C) : g \in Logic} \cup {Un("not", Bin("plus", A, B)), Un("not", A), Bin("and", A, Un("not", B))}
NoOther == Cn(0, 0)
Piecewise == {Pw(<<<<A, Bin("lt", A, B)>>>>, C), Pw(<<<<A, Bin("gt", A, B)>>>>, C), Pw(<<<<A, Bin("lt", A, B)>>, <<B, Bin("gt", A, B)>>>>, C),
              Pw(<<<<A, Bin("lt", A, B)>>>>, NoOther), Pw(<<<<Bin("plus", A, B), Bin("and", Bin("lt", A, B), Bin("lt", B, C))>>>>, Bin("times", B, C)),
              Bin("plus", Pw(<<<<A, Bin("lt", A, B)>>>>, C), B), Bin("times", B, Pw(<<<<A, Bin("gt", A, B)>>>>, C)),
              Pw(<<<<Pw(<<<<A, Bin("lt", A, C)>>>>, B), Bin("lt", A, B)>>>>, C), Pw(<<<<A, Bin("lt", A, B)>>>>, Pw(<<<<B, Bin("lt", B, C)>>>>, C)),
              Un("minus", Pw(<<<<A, Bin("lt", A, B)>>>>, C)), Bin("lt", Pw(<<<<A, Bin("lt", A, B)>>>>, C), B)}
Quals == {Un("root", Cn(4, 1)), Un("root", Bin("times", A, A)), Qual("root", Cn(3, 1), Cn(8, 1)), Qual("root", Cn(2, 1), Cn(9, 1)), Qual("root", Cn(3, 1), Cn(27, 1)),
          Bin("plus", Un("root", Cn(9, 1)), A), Un("minus", Un("root", Cn(4, 1))), Bin("power", Un("root", Cn(4, 1)), Cn(3, 1)),
          Un("log", Cn(100, 1)), Qual("log", Cn(2, 1), Cn(8, 1)), Qual("log", Cn(10, 1), Cn(1000, 1)), Qual("log", Cn(3, 1), Cn(9, 1)), Bin("times", Un("log", Cn(100, 1)), B),
          Bin("power", A, Cn(2, 1)), Bin("power", A, Cn(3, 1)), Bin("power", Cn(2, 1), Cn(5, 1)), Bin("power", Bin("plus", A, B), Cn(2, 1)), Bin("power", Cn(1, 2), Cn(2, 1)), Bin("power", A, Cn(0, 1)),
          Bin("power", Bin("power", A, Cn(2, 1)), Cn(2, 1)), Bin("power", A, Bin("power", Cn(2, 1), Cn(2, 1))), Bin("divide", Cn(1, 1), Bin("power", A, Cn(2, 1)))}
Zero0 == Bin("minus", A, A)
One1 == Bin("divide", A, A)
Funs == {Un(f, Cn(0, 1)) : f \in DOMAIN AtZero} \cup {Un(f, Zero0) : f \in DOMAIN AtZero} \cup {Un(f, Cn(1, 1)) : f \in DOMAIN AtOne} \cup {Un(f, One1) : f \in DOMAIN AtOne}
        \cup {Bin("plus", Un(f, Zero0), B) : f \in {"cos", "exp", "sec", "cosh"}} \cup {Bin("times", Un("exp", Zero0), Un("cos", Cn(0, 1))), Un("exp", Un("ln", Cn(1, 1))), Un("ln", Un("exp", Cn(0, 1)))}
Half == Cn(1, 2)
Two == Cn(2, 1)
RecipTrees == {Bin("times", Un(r, Two), Un(Recip[r], Two)) : r \in DOMAIN Recip} \cup {Bin("times", Un(r, A), Un(Recip[r], A)) : r \in DOMAIN Recip}
              \cup {Bin("times", Un(InvOf[a], Un(a, Two)), Two) : a \in DOMAIN InvOf \ {"arcsech"}} \cup {Bin("times", Un("cosh", Un("arcsech", Half)), Half)}
              \cup {Bin("plus", Bin("times", Un("csc", Two), Un("sin", Two)), B), Bin("times", Un("sin", Un("arccsc", Un("minus", Two))), Un("minus", Two))}
Consts == {N("true", <<>>), N("false", <<>>)} \cup {Bin("and", [op |-> "true"], Bin("lt", A, B)), Bin("or", [op |-> "false"], Bin("lt", A, B)), Un("not", [op |-> "true"]),
          Pw(<<<<A, [op |-> "true"]>>>>, B), Pw(<<<<A, [op |-> "false"]>>>>, B)}
\* negative numbers wherever an operand can stand (a minus sign next to an operator), and numbers in their other spellings
Neg == Cn(-7, 1)
NegConst == UNION {{Bin(c, Neg, A), Bin(c, A, Neg), Bin(c, Neg, Cn(-2, 1))} : c \in Arith} \cup {Un(u, Neg) : u \in Unary} \cup {Un("minus", Un("minus", Neg)), Un("minus", Cn(-1, 2))}
            \cup {Bin(r, Neg, A) : r \in {"lt", "eq"}} \cup {Pw(<<<<Neg, Bin("lt", A, Neg)>>>>, Un("minus", Neg))}
NumForms == {"enot", "dot"}      \* (a cn of type real holds a basic real: no exponent there; exponents are spelled in initial values, Gen_Codegen)
Commented == {CiC("a"), CnF(3, 1, "comment"), Bin("plus", CiC("a"), CnF(3, 1, "comment")), Un("minus", CnF(-3, 1, "comment")), Bin("times", CiC("b"), CiC("c"))}
Spellings == Commented \cup UNION {{CnF(3, 1, f), CnF(-3, 1, f), CnF(1, 2, f), Bin("plus", A, CnF(3, 1, f)), Un("minus", CnF(-3, 1, f)), Bin("power", A, CnF(2, 1, f)), Bin("minus", A, CnF(-3, 1, f))} : f \in NumForms}
\* round 4: special exponents over a compound base under a tighter-binding parent; functions that are written as a quotient
\* (logarithm to a base) as operands; a unary plus between two operators; a piecewise as the condition of a piece
SpecialExps == {Cn(1, 1), Cn(1, 2), Cn(2, 1), Cn(0, 1), Cn(-1, 1)}
PowSpecial == UNION {UNION {{Bin(p, A, Bin("power", Bin(c, B, C), e)), Bin(p, Bin("power", Bin(c, B, C), e), A)} : p \in {"times", "divide", "minus", "plus"}, c \in {"plus", "times", "minus", "divide"}} : e \in SpecialExps}
              \cup {Un("minus", Bin("power", Bin("plus", A, B), e)) : e \in SpecialExps}
LogBase == Qual("log", Cn(3, 1), Cn(9, 1))
QuotientFuns == UNION {{Bin(p, A, LogBase), Bin(p, LogBase, A), Bin(p, A, Qual("root", Cn(3, 1), Cn(8, 1)))} : p \in {"divide", "times", "minus", "power", "plus"}} \cup {Un("minus", LogBase), Bin("divide", LogBase, LogBase)}
PlusWrapped == {Bin("minus", A, Un("plus", Bin("minus", B, C))), Bin("times", A, Un("plus", Bin("plus", B, C))), Bin("divide", A, Un("plus", Bin("times", B, C))),
                Un("minus", Un("plus", Bin("plus", A, B))), Bin("power", Un("plus", Bin("plus", A, B)), Cn(2, 1)), Bin("minus", A, Un("plus", Un("minus", B)))}
PwCondition == {Pw(<<<<A, Pw(<<<<[op |-> "true"], Bin("lt", A, B)>>>>, [op |-> "false"])>>>>, C), Pw(<<<<A, Pw(<<<<Bin("gt", A, B), Bin("lt", A, C)>>>>, Bin("lt", B, C))>>>>, B)}
Leaves == {A, Cn(3, 1), Cn(1, 2), Cn(-7, 1), Cn(5, 4), Un("minus", Cn(3, 1))}
AllTrees == Arith2 \cup Nary \cup Unary2 \cup Rel1 \cup Logic2 \cup RelNest \cup Piecewise \cup Quals \cup Funs \cup RecipTrees \cup (Consts \ {N("true", <<>>), N("false", <<>>)}) \cup {[op |-> "true"], [op |-> "false"]} \cup Leaves \cup NegConst \cup Spellings \cup PowSpecial \cup QuotientFuns \cup PlusWrapped \cup PwCondition
QuickTrees == {t \in AllTrees : TRUE}
Envs == <<[a |-> I(2), b |-> I(3), c |-> I(5)], [a |-> I(-3), b |-> I(2), c |-> Q(1, 2)], [a |-> I(7), b |-> I(7), c |-> I(-2)], [a |-> Q(3, 2), b |-> I(-1), c |-> I(4)]>>
=============================================================================
