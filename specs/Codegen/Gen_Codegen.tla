----------------------------- MODULE Gen_Codegen -----------------------------
(* One state per (tree, environment); a tree is emitted for an environment only when its value is exactly defined. *)
EXTENDS Trees, TraceIO
VARIABLE sc
\* initForm: how the initial values of a, b, c are spelled ("plain" 3, "upperE" 3E0, "lowerE" 3e0)
Init == sc \in {[tree |-> t, env |-> e, initForm |-> "plain"] : t \in AllTrees, e \in DOMAIN Envs}
               \cup {[tree |-> t, env |-> e, initForm |-> f] : t \in {A, Bin("plus", A, B)}, e \in DOMAIN Envs, f \in {"upperE", "lowerE"}}
Next == UNCHANGED sc
Spec == Init /\ [][Next]_sc
Val == Eval(sc.tree, Envs[sc.env])
Emit == IsDef(Val) => EmitScenario([env |-> sc.env, initForm |-> sc.initForm, envv |-> Envs[sc.env], tree |-> sc.tree, expect |-> Val, ops |-> Ops(sc.tree)])
Q2 == Cn(-3, 2)
\* sanity of the evaluator on a few identities (the design half)
Sanity == /\ Eval(Bin("minus", A, Bin("minus", B, C)), Envs[1]) = I(4)
          /\ Eval(Bin("minus", Bin("minus", A, B), C), Envs[1]) = I(-6)
          /\ Eval(Un("not", Bin("and", Bin("lt", A, B), Bin("gt", B, C))), Envs[1]) = I(1)
          /\ Eval(Bin("divide", A, Un("minus", Bin("times", B, C))), Envs[1]) = Q(-2, 15)
          /\ Eval(Bin("lt", A, Bin("lt", B, C)), Envs[1]) = I(0)
          /\ Eval(Bin("power", Un("minus", A), Cn(2, 1)), Envs[1]) = I(4) /\ Eval(Un("minus", Bin("power", A, Cn(2, 1))), Envs[1]) = I(-4)
          /\ Eval(Un("floor", Q2), Envs[1]) = I(-2) /\ Eval(Un("ceiling", Q2), Envs[1]) = I(-1)
=============================================================================
