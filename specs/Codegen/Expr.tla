-------------------------------- MODULE Expr --------------------------------
(* C03: MathML expression trees and their exact value.  Values are rationals   *)
(* [n, d] (d > 0, lowest terms); truth values are 1 and 0 (the convention of    *)
(* both built-in profiles); [n |-> 0, d |-> 0] means "not defined exactly"      *)
(* (such trees are not emitted).                                                *)
EXTENDS Naturals, Integers, Sequences, FiniteSets
Abs(x) == IF x < 0 THEN -x ELSE x
RECURSIVE Gcd(_, _)
Gcd(a, b) == IF b = 0 THEN a ELSE Gcd(b, a % b)
Undef == [n |-> 0, d |-> 0]
IsDef(q) == q.d # 0
Q(n, d) == IF d = 0 THEN Undef ELSE LET g == Gcd(Abs(n), Abs(d)) s == IF d < 0 THEN -1 ELSE 1 IN [n |-> s * (n \div g), d |-> s * (d \div g)]
I(n) == [n |-> n, d |-> 1]
Tr(b) == IF b THEN I(1) ELSE I(0)
Truthy(q) == q.n # 0
QAdd(x, y) == IF IsDef(x) /\ IsDef(y) THEN Q(x.n * y.d + y.n * x.d, x.d * y.d) ELSE Undef
QNeg(x) == IF IsDef(x) THEN [n |-> -x.n, d |-> x.d] ELSE Undef
QMul(x, y) == IF IsDef(x) /\ IsDef(y) THEN Q(x.n * y.n, x.d * y.d) ELSE Undef
QDiv(x, y) == IF IsDef(x) /\ IsDef(y) /\ y.n # 0 THEN Q(x.n * y.d, x.d * y.n) ELSE Undef
QLt(x, y) == x.n * y.d < y.n * x.d
QEq(x, y) == x.n * y.d = y.n * x.d
IsInt(x) == IsDef(x) /\ x.d = 1
Small(x) == IsDef(x) /\ Abs(x.n) < 20000 /\ x.d < 20000
RECURSIVE IPow(_, _)
IPow(x, k) == IF k = 0 THEN I(1) ELSE IF ~Small(x) THEN Undef ELSE QMul(x, IPow(x, k - 1))
QPow(x, y) == IF ~IsInt(y) \/ ~IsDef(x) \/ Abs(y.n) > 6 THEN Undef
              ELSE IF y.n >= 0 THEN IPow(x, y.n) ELSE IF x.n = 0 THEN Undef ELSE QDiv(I(1), IPow(x, -y.n))
Floor(x) == IF IsDef(x) THEN I(x.n \div x.d) ELSE Undef          \* TLA's \div rounds towards minus infinity for d > 0
Ceil(x) == IF IsDef(x) THEN I(-((-x.n) \div x.d)) ELSE Undef
\* exact integer roots of small non-negative rationals
IRoot(m, k) == IF \E r \in 0..40 : IPow(I(r), k).n = m THEN CHOOSE r \in 0..40 : IPow(I(r), k).n = m ELSE -1
QRoot(x, k) == IF ~IsDef(x) \/ x.n < 0 \/ k \notin 2..3 \/ x.n > 1600 \/ x.d > 1600 \/ IRoot(x.n, k) < 0 \/ IRoot(x.d, k) < 0 THEN Undef ELSE Q(IRoot(x.n, k), IRoot(x.d, k))
\* fmod for non-negative integer operands (elsewhere the sign conventions are the C library's business)
QRem(x, y) == IF IsInt(x) /\ IsInt(y) /\ x.n >= 0 /\ y.n > 0 THEN I(x.n % y.n) ELSE Undef
\* exact powers: log_b(x) = k iff b^k = x
QLog(b, x) == IF IsInt(b) /\ IsInt(x) /\ b.n \in 2..10 /\ x.n >= 1 /\ (\E k \in 0..6 : IPow(b, k).n = x.n) THEN I(CHOOSE k \in 0..6 : IPow(b, k).n = x.n) ELSE Undef
\* transcendental functions only at the points where their value is exact
AtZero == [sin |-> 0, tan |-> 0, sinh |-> 0, tanh |-> 0, arcsin |-> 0, arctan |-> 0, arcsinh |-> 0, arctanh |-> 0, cos |-> 1, cosh |-> 1, sec |-> 1, sech |-> 1, exp |-> 1]
AtOne == [ln |-> 0, arccos |-> 0, arccosh |-> 0, arcsec |-> 0, arcsech |-> 0]
Fun(f, x) == IF f \in DOMAIN AtZero /\ IsDef(x) /\ x.n = 0 THEN I(AtZero[f])
             ELSE IF f \in DOMAIN AtOne /\ IsDef(x) /\ QEq(x, I(1)) THEN I(AtOne[f]) ELSE Undef

\* reciprocal families, exact through their defining identities:  csc(x) * sin(x) = 1 ;  sin(arccsc(x)) * x = 1  (x a rational of the domain)
Recip == [csc |-> "sin", cot |-> "tan", csch |-> "sinh", coth |-> "tanh", sec |-> "cos", sech |-> "cosh"]
InvOf == [arccsc |-> "sin", arccot |-> "tan", arccsch |-> "sinh", arccoth |-> "tanh", arcsec |-> "cos", arcsech |-> "cosh"]
InDomain(a, x) == IsDef(x) /\ x.n # 0 /\
    CASE a \in {"arccsc", "arcsec"} -> ~QLt(QMul(x, x), I(1))
      [] a = "arccoth" -> QLt(I(1), QMul(x, x))
      [] a = "arcsech" -> QLt(I(0), x) /\ ~QLt(I(1), x)
      [] OTHER -> TRUE
\* ---------------------------------------------------------------- trees
Ci(v) == [op |-> "ci", name |-> v]
Cn(n, d) == [op |-> "cn", n |-> n, d |-> d]
\* the same number written another way: "upperE" 3E0, "lowerE" 3e0, "plusExp" 3e+0, "enot" <cn type="e-notation">3<sep/>0</cn>, "dot" 3.
\* form "comment": a comment in front of the number / the name (<cn ...><!-- c -->3</cn>, <ci><!-- c -->a</ci>)
CiC(name) == [op |-> "ci", name |-> name, form |-> "comment"]
CnF(n, d, form) == [op |-> "cn", n |-> n, d |-> d, form |-> form]
N(op, args) == [op |-> op, args |-> args]
Pw(pieces, other) == [op |-> "piecewise", pieces |-> pieces, otherwise |-> other]       \* pieces: <<[val, cond]>>; otherwise: tree or Cn(0,0) for "absent"
Qual(op, q, x) == [op |-> op, qual |-> q, args |-> <<x>>]                               \* root with degree, log with logbase
RECURSIVE Eval(_, _)
RECURSIVE Fold(_, _, _, _)
Fold(f(_, _), vals, i, acc) == IF i > Len(vals) THEN acc ELSE Fold(f, vals, i + 1, f(acc, vals[i]))
QMin(x, y) == IF IsDef(x) /\ IsDef(y) THEN (IF QLt(y, x) THEN y ELSE x) ELSE Undef
QMax(x, y) == IF IsDef(x) /\ IsDef(y) THEN (IF QLt(x, y) THEN y ELSE x) ELSE Undef
And2(x, y) == IF IsDef(x) /\ IsDef(y) THEN Tr(Truthy(x) /\ Truthy(y)) ELSE Undef
Or2(x, y) == IF IsDef(x) /\ IsDef(y) THEN Tr(Truthy(x) \/ Truthy(y)) ELSE Undef
Xor2(x, y) == IF IsDef(x) /\ IsDef(y) THEN Tr(Truthy(x) # Truthy(y)) ELSE Undef
Rel(op, x, y) == IF ~(IsDef(x) /\ IsDef(y)) THEN Undef
                 ELSE CASE op = "eq" -> Tr(QEq(x, y)) [] op = "neq" -> Tr(~QEq(x, y)) [] op = "lt" -> Tr(QLt(x, y))
                        [] op = "leq" -> Tr(QLt(x, y) \/ QEq(x, y)) [] op = "gt" -> Tr(QLt(y, x)) [] op = "geq" -> Tr(QLt(y, x) \/ QEq(x, y))
RECURSIVE EvalPieces(_, _, _, _)
EvalPieces(ps, other, env, i) ==
    IF i > Len(ps) THEN (IF other.op = "cn" /\ other.d = 0 THEN Undef ELSE Eval(other, env))
    ELSE LET c == Eval(ps[i][2], env) IN
         IF ~IsDef(c) THEN Undef ELSE IF Truthy(c) THEN Eval(ps[i][1], env) ELSE EvalPieces(ps, other, env, i + 1)
Eval(t, env) ==
    CASE t.op = "ci" -> env[t.name]
      [] t.op = "cn" -> Q(t.n, t.d)
      [] t.op = "true" -> I(1)
      [] t.op = "false" -> I(0)
      [] t.op = "piecewise" -> EvalPieces(t.pieces, t.otherwise, env, 1)
      [] t.op = "root" /\ "qual" \in DOMAIN t -> LET k == Eval(t.qual, env) IN IF IsInt(k) THEN QRoot(Eval(t.args[1], env), k.n) ELSE Undef
      [] t.op = "log" /\ "qual" \in DOMAIN t -> QLog(Eval(t.qual, env), Eval(t.args[1], env))
      [] OTHER ->
         LET v == [i \in DOMAIN t.args |-> Eval(t.args[i], env)] IN
         CASE t.op = "plus" -> IF Len(v) = 1 THEN v[1] ELSE Fold(QAdd, v, 2, v[1])
           [] t.op = "minus" -> IF Len(v) = 1 THEN QNeg(v[1]) ELSE QAdd(v[1], QNeg(v[2]))
           [] t.op = "times" ->
                IF Len(t.args) = 2 /\ t.args[1].op \in DOMAIN Recip /\ t.args[2].op = Recip[t.args[1].op] /\ t.args[1].args = t.args[2].args
                THEN LET x == Eval(t.args[1].args[1], env) IN IF IsDef(x) /\ x.n # 0 THEN I(1) ELSE Undef
                ELSE IF Len(t.args) = 2 /\ t.args[1].op \in {InvOf[a] : a \in DOMAIN InvOf} /\ "args" \in DOMAIN t.args[1] /\ t.args[1].args[1].op \in DOMAIN InvOf
                        /\ InvOf[t.args[1].args[1].op] = t.args[1].op /\ t.args[1].args[1].args[1] = t.args[2]
                THEN (IF InDomain(t.args[1].args[1].op, v[2]) THEN I(1) ELSE Undef)
                ELSE Fold(QMul, v, 2, v[1])
           [] t.op = "divide" -> QDiv(v[1], v[2])
           [] t.op = "power" -> QPow(v[1], v[2])
           [] t.op = "root" -> QRoot(v[1], 2)
           [] t.op = "log" -> QLog(I(10), v[1])
           [] t.op = "abs" -> IF IsDef(v[1]) THEN [n |-> Abs(v[1].n), d |-> v[1].d] ELSE Undef
           [] t.op = "floor" -> Floor(v[1])
           [] t.op = "ceiling" -> Ceil(v[1])
           [] t.op = "min" -> Fold(QMin, v, 2, v[1])
           [] t.op = "max" -> Fold(QMax, v, 2, v[1])
           [] t.op = "rem" -> QRem(v[1], v[2])
           [] t.op \in {"eq", "neq", "lt", "leq", "gt", "geq"} -> Rel(t.op, v[1], v[2])
           [] t.op = "and" -> Fold(And2, v, 2, v[1])
           [] t.op = "or" -> Fold(Or2, v, 2, v[1])
           [] t.op = "xor" -> Fold(Xor2, v, 2, v[1])
           [] t.op = "not" -> IF IsDef(v[1]) THEN Tr(~Truthy(v[1])) ELSE Undef
           [] OTHER -> Fun(t.op, v[1])

\* operators used by a tree (for the helper functions the generated code must define)
RECURSIVE Ops(_)
Ops(t) == CASE t.op \in {"ci", "cn", "true", "false"} -> {}
            [] t.op = "piecewise" -> {"piecewise"} \cup UNION {Ops(t.pieces[i][1]) \cup Ops(t.pieces[i][2]) : i \in DOMAIN t.pieces} \cup (IF t.otherwise.op = "cn" /\ t.otherwise.d = 0 THEN {} ELSE Ops(t.otherwise))
            [] OTHER -> {t.op} \cup UNION {Ops(t.args[i]) : i \in DOMAIN t.args} \cup (IF "qual" \in DOMAIN t THEN Ops(t.qual) ELSE {})
=============================================================================
