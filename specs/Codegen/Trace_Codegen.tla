---------------------------- MODULE Trace_Codegen ----------------------------
(* C03: the value every generated implementation computed for every tree, against the exact value TLC derives. *)
EXTENDS Trees, TraceIO, LoggerObs, KnownFindings
VARIABLE l
Init == l = 1
BadEqs(ev) == {i \in DOMAIN ev.eqs : LET q == ev.eqs[i] IN ~(q.expect = Eval(q.tree, Envs[ev.env]) /\ q.okC /\ q.okPy /\ q.agree)}
Problems(ev) ==
    (IF ev.validErrors = 0 THEN {} ELSE {"harness: generated model is not valid"})
    \cup (IF ev.amType = "algebraic" THEN {} ELSE {"a model of explicit equations over constants is not classified algebraic"})
    \cup (IF ev.builtC THEN {} ELSE {"generated C does not compile / run"})
    \cup (IF ev.builtPy THEN {} ELSE {"generated Python does not run"})
    \cup (IF BadEqs(ev) = {} THEN {} ELSE {"generated code computes a wrong value"})
    \cup (IF LogCoherent(ev.alog) THEN {} ELSE {"incoherent issue list"})
First(ev) == LET i == CHOOSE k \in BadEqs(ev) : TRUE IN <<ev.eqs[i].tree, ev.eqs[i].expect, ev.eqs[i].obsC, ev.eqs[i].okC, ev.eqs[i].okPy>>
Next == /\ l <= Len(TraceLog) /\ l' = l + 1
        /\ LET ev == TraceLog[l] IN
           IF ev.e = "Reset" THEN TRUE
           ELSE IF ev.e # "values" THEN Verdict("bad", l, ev.sc, <<ev.e>>)
           ELSE IF Problems(ev) = {} THEN TRUE
           ELSE Verdict("bad", l, ev.sc, <<Problems(ev), ev.env, IF BadEqs(ev) # {} THEN First(ev) ELSE <<>>, Cardinality(BadEqs(ev))>>)
Spec == Init /\ [][Next]_l
Accepted == LET d == TLCGet("stats").diameter IN PrintT(<<"DEPTH", d>>) /\ d - 1 = Len(TraceLog)
=============================================================================
