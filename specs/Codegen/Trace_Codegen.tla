---------------------------- MODULE Trace_Codegen ----------------------------
(* C03: the value every generated implementation computed for every tree, against the exact value TLC derives. *)
EXTENDS Trees, TraceIO, LoggerObs, KnownFindings
CONSTANT Mode     \* "C03": values; "C17": declared structure and helper functions
VARIABLE l
Init == l = 1
BadEqs(ev) == {i \in DOMAIN ev.eqs : LET q == ev.eqs[i] IN ~(q.expect = Eval(q.tree, Envs[ev.env]) /\ q.okC /\ q.okPy /\ q.agree)}
Problems(ev) ==
    (IF ev.validErrors = 0 THEN {} ELSE {"harness: generated model is not valid"})
    \cup (IF ev.amType = "algebraic" THEN {} ELSE {"a model of explicit equations over constants is not classified algebraic"})
    \cup (IF ev.builtC THEN {} ELSE {"generated C does not compile / run"})
    \cup (IF ev.builtPy THEN {} ELSE {"generated Python does not run"})
    \cup (IF BadEqs(ev) = {} THEN {} ELSE {"generated code computes a wrong value"})
    \cup (IF LogCoherent(ev.alog) THEN {} ELSE {"incoherent issue list"})
\* ---------------------------------------------------------------- C17: helper functions exactly when the equations use them
OpsOf(ev) == UNION {Ops(ev.eqs[i].tree) : i \in DOMAIN ev.eqs}
HelperOfC == [xor |-> "xor", min |-> "min", max |-> "max", sec |-> "sec", csc |-> "csc", cot |-> "cot", sech |-> "sech", csch |-> "csch", coth |-> "coth",
              arcsec |-> "asec", arccsc |-> "acsc", arccot |-> "acot", arcsech |-> "asech", arccsch |-> "acsch", arccoth |-> "acoth"]
HelperOfPy == [eq |-> "eq_func", neq |-> "neq_func", lt |-> "lt_func", leq |-> "leq_func", gt |-> "gt_func", geq |-> "geq_func", and |-> "and_func", or |-> "or_func",
               xor |-> "xor_func", not |-> "not_func", min |-> "min", max |-> "max", sec |-> "sec", csc |-> "csc", cot |-> "cot", sech |-> "sech", csch |-> "csch", coth |-> "coth",
               arcsec |-> "asec", arccsc |-> "acsc", arccot |-> "acot", arcsech |-> "asech", arccsch |-> "acsch", arccoth |-> "acoth"]
NeededC(ev) == {HelperOfC[o] : o \in OpsOf(ev) \cap DOMAIN HelperOfC}
NeededPy(ev) == {HelperOfPy[o] : o \in OpsOf(ev) \cap DOMAIN HelperOfPy}
StructProblems(ev) ==
    (IF Range(ev.helpersC) = NeededC(ev) THEN {} ELSE {"C helper functions are not emitted exactly when the equations use them"})
    \cup (IF Range(ev.helpersPy) = NeededPy(ev) THEN {} ELSE {"Python helper functions are not emitted exactly when the equations use them"})
    \cup (IF ev.builtC /\ ev.cStruct.diag = "" THEN {} ELSE {"generated C does not compile cleanly"})
    \cup (IF ev.builtPy THEN {} ELSE {"generated Python does not load"})
    \cup (IF ev.cStruct.variableCount = ev.neqs + 3 /\ ev.pyVariableCount = ev.neqs + 3 THEN {} ELSE {"VARIABLE_COUNT differs from the number of variables"})
    \cup (IF Range(ev.cStruct.declared) \subseteq Range(ev.cStruct.defined) /\ Len(ev.cStruct.defined) = Cardinality(Range(ev.cStruct.defined)) THEN {} ELSE {"a function declared in the interface is not defined exactly once"})
    \cup (IF ev.cStruct.infoFits THEN {} ELSE {"an info string does not fit its declared buffer"})
First(ev) == LET i == CHOOSE k \in BadEqs(ev) : TRUE IN <<ev.eqs[i].tree, ev.eqs[i].expect, ev.eqs[i].obsC, ev.eqs[i].okC, ev.eqs[i].okPy>>
Next == /\ l <= Len(TraceLog) /\ l' = l + 1
        /\ LET ev == TraceLog[l] IN
           IF ev.e = "Reset" THEN TRUE
           ELSE IF ev.e # "values" THEN Verdict("bad", l, ev.sc, <<ev.e>>)
           ELSE IF Mode = "C17" THEN (IF StructProblems(ev) = {} THEN TRUE ELSE Verdict("bad", l, ev.sc, <<StructProblems(ev), ev.helpersC, ev.helpersPy, OpsOf(ev), ev.cStruct.diag>>))
           ELSE IF Problems(ev) = {} THEN TRUE
           ELSE Verdict("bad", l, ev.sc, <<Problems(ev), ev.env, IF BadEqs(ev) # {} THEN First(ev) ELSE <<>>, Cardinality(BadEqs(ev))>>)
Spec == Init /\ [][Next]_l
Accepted == LET d == TLCGet("stats").diameter IN PrintT(<<"DEPTH", d>>) /\ d - 1 = Len(TraceLog)
=============================================================================
