SPECIFICATION Spec
INVARIANTS Sanity Emit
CHECK_DEADLOCK FALSE
