SPECIFICATION Spec
CONSTANTS
 Texts = {"ode", "alg", "conn", "invalid", "parseerr", "under", "over", "v11", "garbage", "empty", "foreign", "imp_ok", "imp_units", "imp_missing", "imp_noent", "imp_garbage", "imp_foreign", "imp_11", "imp_10err", "imp_cycle", "imp_empty"}
 MaxLen = 2
 Insts = {"fresh", "reused"}
 OpsUsed = {"parse", "validate", "analyse", "generate", "print", "resolve", "flatten", "assignIds", "lookup"}
INVARIANTS Emit
CHECK_DEADLOCK FALSE
