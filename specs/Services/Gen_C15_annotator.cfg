SPECIFICATION Spec
CONSTANTS
 Texts = {"dupids", "ode"}
 MaxLen = 0
 Insts = {"fresh"}
 OpsUsed = {}
INVARIANTS EmitAnnotator
CHECK_DEADLOCK FALSE
