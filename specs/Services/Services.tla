------------------------------ MODULE Services ------------------------------
(* C12 / C15: histories of service calls over a pool of documents.            *)
(* Generation: every sequence of MaxLen commands over the alphabet.           *)
EXTENDS Naturals, Sequences, FiniteSets, TraceIO
CONSTANTS Texts,     \* names of pool documents (harness/pool.h)
          MaxLen,
          Insts,     \* {"fresh"} or {"fresh", "reused"}
          OpsUsed    \* subset of the operations
Bools == {TRUE, FALSE}
Cmds ==
    (IF "parse" \in OpsUsed THEN {[op |-> "parse", text |-> t, strict |-> s, inst |-> i] : t \in Texts, s \in Bools, i \in Insts} ELSE {})
    \cup {[op |-> o, inst |-> i] : o \in OpsUsed \cap {"validate", "analyse", "assignIds"}, i \in Insts}
    \cup (IF "generate" \in OpsUsed THEN {[op |-> "generate", profile |-> p, inst |-> i] : p \in {"c", "py"}, i \in Insts} ELSE {})
    \cup (IF "edit" \in OpsUsed THEN {[op |-> "edit"]} ELSE {})
    \cup (IF "print" \in OpsUsed THEN {[op |-> "print", auto |-> a, inst |-> i] : a \in Bools, i \in Insts} ELSE {})
    \cup {[op |-> o, strict |-> s, inst |-> i] : o \in OpsUsed \cap {"resolve", "flatten"}, s \in Bools, i \in Insts}
    \cup (IF "lookup" \in OpsUsed THEN {[op |-> "lookup", id |-> d, inst |-> i] : d \in {"nosuchid", "r1"}, i \in Insts} ELSE {})
VARIABLE hist
Init == hist = <<>>
Next == Len(hist) < MaxLen /\ \E c \in Cmds : hist' = Append(hist, c)
Spec == Init /\ [][Next]_hist
Emit == Len(hist) = MaxLen => EmitScenario([cmds |-> hist])
\* hand-picked longer histories around one service (too long for the exhaustive enumeration)
PS(t) == [op |-> "parse", text |-> t, strict |-> TRUE, inst |-> "fresh"]
An(i) == [op |-> "analyse", inst |-> i]
Ge(p, i) == [op |-> "generate", profile |-> p, inst |-> i]
Ed == [op |-> "edit"]
\* a Generator that outlives a re-analysis of the (edited) model it generated code for, against a fresh one
GeneratorHistories == UNION {{<<PS("ode"), An(a), Ge(p, "reused"), Ed, An(a), Ge(p, "reused")>>, <<PS("ode"), An(a), Ge(p, "reused"), Ed, An(a), Ge(q, "reused"), Ge(p, "reused")>>,
                              <<PS("ode"), Ed, An(a), Ge(p, "fresh")>>, <<PS("ode"), Ed, An(a), Ge(p, "reused")>>, <<PS("ode"), An(a), Ge(p, "reused"), PS("ode2"), An(a), Ge(p, "reused")>>,
                              <<PS("ode2"), An(a), Ge(p, "fresh")>>}
                             : a \in {"fresh", "reused"}, p \in {"c", "py"}, q \in {"c", "py"}}
\* importer-centred histories: parse an importing document, resolve, then every sequence of three calls that may read or (wrongly)
\* write the imported models - a second flatten must see what the first one saw
Rs(i) == [op |-> "resolve", strict |-> TRUE, inst |-> i]
ImporterTail == {Rs(i) : i \in {"fresh", "reused"}} \cup {[op |-> "flatten", strict |-> TRUE, inst |-> i] : i \in {"fresh", "reused"}}
                \cup {[op |-> "validate", inst |-> "fresh"], [op |-> "print", auto |-> FALSE, inst |-> "fresh"]}
ImporterHistories == {<<PS(t), Rs(i), a, b, c>> : t \in Texts, i \in {"fresh", "reused"}, a \in ImporterTail, b \in ImporterTail, c \in ImporterTail}
EmitImporter == hist = <<>> => \A h \in ImporterHistories : EmitScenario([cmds |-> h])
\* annotator-centred histories: lookups by identifier and index (unique, duplicated, unknown identifier; index in and out of range),
\* assignments that cannot work (an item of no model, a null model), a lookup after the model was destroyed - alone, after a parse,
\* and in pairs (the second call starts from an empty issue list)
AnnCmds == {[op |-> "lookupIdx", id |-> d, index |-> k, inst |-> "reused"] : d \in {"dup", "uq", "nosuchid"}, k \in {-1, 0, 1, 2, 5}}
           \cup {[op |-> o, inst |-> "reused"] : o \in {"assignUnowned", "assignNullModel", "lookupExpired"}}
AnnotatorHistories == {<<c>> : c \in AnnCmds} \cup {<<PS(t), c>> : t \in Texts, c \in AnnCmds} \cup {<<PS(t), c, d>> : t \in Texts, c \in AnnCmds, d \in AnnCmds}
EmitAnnotator == hist = <<>> => \A h \in AnnotatorHistories : EmitScenario([cmds |-> h])
EmitExplicit == hist = <<>> => \A h \in GeneratorHistories : EmitScenario([cmds |-> h])
=============================================================================
