SPECIFICATION Spec
CONSTANTS
 Texts = {"ode"}
 MaxLen = 0
 Insts = {"fresh"}
 OpsUsed = {}
INVARIANTS EmitExplicit
CHECK_DEADLOCK FALSE
