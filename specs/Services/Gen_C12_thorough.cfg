SPECIFICATION Spec
CONSTANTS
 Texts = {"ode", "ode2", "v11", "parseerr"}
 MaxLen = 4
 Insts = {"fresh", "reused"}
 OpsUsed = {"parse", "validate", "analyse", "generate", "print", "resolve", "flatten"}
INVARIANTS Emit
CHECK_DEADLOCK FALSE
