SPECIFICATION Spec
CONSTANTS
 Texts = {"ode", "ode2"}
 MaxLen = 4
 Insts = {"fresh", "reused"}
 OpsUsed = {"parse", "analyse", "generate"}
INVARIANTS Emit
CHECK_DEADLOCK FALSE
