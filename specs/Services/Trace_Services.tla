--------------------------- MODULE Trace_Services ---------------------------
(* Trace validation of service-call histories.                                *)
(*  C15: hook-level logger operations replayed on the Logger design model     *)
(*       (per instance), public-getter observation coherent, failing results  *)
(*       explained.                                                           *)
(*  C12: the result of a call is a function of its key (operation, argument   *)
(*       digests, documented instance state); inputs are left unchanged.      *)
EXTENDS Logger, LoggerObs, TraceIO, KnownFindings
CONSTANT Mode      \* "C15" or "C12"
VARIABLES l, L, results
tv == <<l, L, results>>
Init == l = 1 /\ L = <<>> /\ results = <<>>

BadLogger == [issues |-> <<>>, errs |-> <<99>>, warns |-> <<>>, msgs |-> <<>>]   \* never coherent
LogStep(ev) ==     \* new state of logger ev.id
    LET g == IF ev.id \in DOMAIN L THEN L[ev.id] ELSE Empty IN
    CASE ev.op = "new" -> Empty
      [] ev.op = "add" -> Add(g, ev.lv)
      [] ev.op = "removeAll" -> Empty
      [] ev.op = "removeError" -> IF CanRemoveError(g, ev.idx) THEN RemoveError(g, ev.idx) ELSE BadLogger
SizesMatch(g, ev) == Len(g.issues) = ev.n /\ Len(g.errs) = ev.ne /\ Len(g.warns) = ev.nw /\ Len(g.msgs) = ev.nm
LogOk(ev) == LET g == LogStep(ev) IN SizesMatch(g, ev) /\ Coherent(g)

ParseKb(ev) == ev.c.op = "parse" /\ "KeepBlanksLeak" \in KnownDeviations
KeyOf(ev) == IF ParseKb(ev) THEN ev.key \o "|kb=" \o ToString(ev.kbBefore) ELSE ev.key
OtherKbKey(ev) == ev.key \o "|kb=" \o ToString(1 - ev.kbBefore)
Pure(ev) == KeyOf(ev) \in DOMAIN results => results[KeyOf(ev)].res = ev.res
InputUnchanged(ev) == ev.inBefore = ev.inAfter
Explained(ev) == (ev.fail /\ "log" \in DOMAIN ev) => ev.log.n > 0
SvcOk(ev) == IF Mode = "C15" THEN ("log" \in DOMAIN ev => LogCoherent(ev.log)) /\ Explained(ev)
             ELSE Pure(ev) /\ InputUnchanged(ev)
Why(ev) == IF Mode = "C15" THEN (IF Explained(ev) THEN "issue list not coherent: " ELSE "failing result without an issue: ") \o ev.key
           ELSE IF ~InputUnchanged(ev) THEN "input model modified: " \o ev.key
           ELSE "result depends on history: " \o ev.key \o " with=" \o ToString(results[KeyOf(ev)].sc)   \* the conflicting earlier scenario

Next == /\ l <= Len(TraceLog) /\ l' = l + 1
        /\ LET ev == TraceLog[l] IN
           CASE ev.e = "Reset" -> UNCHANGED <<L, results>>
             [] ev.e = "log" ->
                   /\ UNCHANGED results
                   /\ IF Mode # "C15" THEN UNCHANGED L
                      ELSE IF LogOk(ev) THEN L' = (ev.id :> LogStep(ev)) @@ L
                      ELSE L' = (ev.id :> Empty) @@ L /\ Verdict("bad", l, ev.sc, "logger operation breaks coherence: " \o ToString(ev))
             [] ev.e = "svc" ->
                   /\ UNCHANGED L
                   /\ results' = IF Mode = "C12" /\ KeyOf(ev) \notin DOMAIN results THEN (KeyOf(ev) :> [res |-> ev.res, sc |-> ev.sc]) @@ results ELSE results
                   /\ IF SvcOk(ev)
                      THEN IF Mode = "C12" /\ ParseKb(ev) /\ OtherKbKey(ev) \in DOMAIN results /\ results[OtherKbKey(ev)].res # ev.res
                           THEN Verdict("known", l, ev.sc, "KeepBlanksLeak") ELSE TRUE
                      ELSE Verdict("bad", l, ev.sc, Why(ev))
             [] ev.e = "rule" ->     \* enumeration sweep: every rule value has a retrievable heading / url and keeps its level
                   /\ UNCHANGED <<L, results>>
                   /\ IF ev.levelOk /\ ev.ruleOk /\ ev.itemUndefined /\ (ev.rule = 0 \/ (ev.name # "" /\ ev.name # "BADURL" /\ ev.urlLen > 10))
                      THEN TRUE ELSE Verdict("bad", l, ev.sc, "reference rule without heading/url: " \o ToString(ev.rule))
             [] ev.e = "etype" ->
                   /\ UNCHANGED <<L, results>>
                   /\ IF ev.name # "" THEN TRUE ELSE Verdict("bad", l, ev.sc, "element type without a name: " \o ToString(ev.t))
             [] OTHER -> UNCHANGED <<L, results>> /\ Verdict("bad", l, ev.sc, ev.e)
Spec == Init /\ [][Next]_tv
Accepted == LET d == TLCGet("stats").diameter IN PrintT(<<"DEPTH", d>>) /\ d - 1 = Len(TraceLog)
=============================================================================
