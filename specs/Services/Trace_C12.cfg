SPECIFICATION Spec
CONSTANT Mode = "C12"
POSTCONDITION Accepted
CHECK_DEADLOCK FALSE
