SPECIFICATION Spec
CONSTANTS
 Texts = {"imp_ok", "imp_units", "imp_tree", "imp_nest"}
 MaxLen = 0
 Insts = {"fresh"}
 OpsUsed = {}
INVARIANTS EmitImporter
CHECK_DEADLOCK FALSE
