SPECIFICATION Spec
CONSTANT Mode = "C15"
POSTCONDITION Accepted
CHECK_DEADLOCK FALSE
