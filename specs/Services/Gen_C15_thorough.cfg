SPECIFICATION Spec
CONSTANTS
 Texts = {"ode", "invalid", "v11", "garbage", "imp_ok", "imp_missing", "imp_10err", "imp_cycle", "imp_empty"}
 MaxLen = 3
 Insts = {"fresh", "reused"}
 OpsUsed = {"parse", "validate", "analyse", "generate", "print", "resolve", "flatten", "assignIds", "lookup"}
INVARIANTS Emit
CHECK_DEADLOCK FALSE
