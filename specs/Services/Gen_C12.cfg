SPECIFICATION Spec
CONSTANTS
 Texts = {"ode", "ode2", "invalid", "v11", "imp_ok", "conn", "parseerr"}
 MaxLen = 3
 Insts = {"fresh", "reused"}
 OpsUsed = {"parse", "validate", "analyse", "generate", "print", "resolve", "flatten"}
INVARIANTS Emit
CHECK_DEADLOCK FALSE
