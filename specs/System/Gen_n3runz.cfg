SPECIFICATION Spec
CONSTANTS NClasses = 3
 Homes = {"A", "B"}
 Nla = {"none"}
 RunCode = TRUE
 ZeroK = TRUE
INVARIANT Emit
CHECK_DEADLOCK FALSE
