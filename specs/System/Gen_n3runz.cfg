SPECIFICATION Spec
CONSTANTS NClasses = 3
 Homes = {"A", "B"}
 Nla = {"none"}
 RunCode = TRUE
 ZeroK = TRUE
 WithU = FALSE
 DiffForms = FALSE
INVARIANT Emit
CHECK_DEADLOCK FALSE
