SPECIFICATION Spec
CONSTANTS NClasses = 2
 Homes = {"A", "B"}
 Nla = {"none", "pair"}
 RunCode = TRUE
 ZeroK = FALSE
 WithU = FALSE
 DiffForms = TRUE
INVARIANT Emit
CHECK_DEADLOCK FALSE
