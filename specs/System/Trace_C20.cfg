SPECIFICATION Spec
CONSTANT Mode = "C20"
POSTCONDITION Accepted
CHECK_DEADLOCK FALSE
