------------------------------ MODULE External ------------------------------
(* C20: external variables.  A mark hands one member variable of a class (the one living in component comp) to       *)
(* Analyser::addExternalVariable together with declared dependencies (classes).  Special targets: "t" (the variable   *)
(* of integration), "foreign" (a variable of another model), "u" (the unknown of the implicit equation u + u = 8).    *)
EXTENDS System, SequencesExt
Mark(n, comp, deps) == [name |-> n, comp |-> comp, deps |-> deps]
ClassNamesOf(sys) == {sys.classes[i].name : i \in DOMAIN sys.classes}
MarkedNames(sys) == {sys.marks[i].name : i \in DOMAIN sys.marks}
ExtClasses(sys) == MarkedNames(sys) \cap (ClassNamesOf(sys) \cup {"u"})

\* ordering edges once the marks are applied: an unmarked class needs what its equation reads, a marked class what its mark
\* declares; reading an (unmarked) state orders nothing
UnmarkedState(sys, d) == d \in ClassNamesOf(sys) /\ Get(sys, d).role = "state" /\ ~IsExt(sys, d)
Needs(sys, n) == IF n = "w" \/ (n = "u" /\ IsExt(sys, "u")) THEN {}
                 ELSE IF n = "u" THEN {NlaDep(sys)} \ ({NoneS, "t"} \cup {d \in ClassNamesOf(sys) : UnmarkedState(sys, d)})    \* u + u = 8 + nlaDep
                 ELSE IF IsExt(sys, n) THEN {d \in DeclaredDeps(sys, n) : ~UnmarkedState(sys, d)}
                 ELSE LET c == Get(sys, n) IN {c.deps[j] : j \in DOMAIN c.deps} \ ({"t"} \cup {d \in ClassNamesOf(sys) : UnmarkedState(sys, d)})
RECURSIVE Reach(_, _, _)
Reach(sys, S, k) == IF k = 0 THEN S ELSE Reach(sys, S \cup UNION {Needs(sys, n) : n \in S}, k - 1)
OrderAcyclic(sys) == \A n \in ClassNamesOf(sys) : n \notin Reach(sys, Needs(sys, n), 5)
\* does the value of class n depend on an external variable (through equations; a marked class does, trivially)
RECURSIVE ReadsExt(_, _, _)
ReadsExt(sys, n, depth) == IF n \in {"t", "w"} \/ depth = 0 THEN FALSE
                           ELSE IF IsExt(sys, n) THEN TRUE
                           ELSE IF n = "u" THEN NlaDep(sys) # NoneS /\ ReadsExt(sys, NlaDep(sys), depth - 1)    \* u + u = 8 + nlaDep
                           ELSE LET c == Get(sys, n) IN \E j \in DOMAIN c.deps : ReadsExt(sys, c.deps[j], depth - 1)
Untouched(sys, n) == ~ReadsExt(sys, n, 6)

\* ---------------------------------------------------------------- marks of the bounded scope
Targets(sys) == {<<n, comp>> : n \in ClassNamesOf(sys), comp \in {"A", "B"}} \cap UNION {{<<n, comp>> : comp \in UsedIn(sys, n)} : n \in ClassNamesOf(sys)}
TTargets(sys) == IF HasStates(sys) THEN {<<"t", comp>> : comp \in UsedIn(sys, "t")} ELSE {}
UTargets(sys) == IF sys.nla = "one" THEN {<<"u", "A">>} ELSE {}
DepChoices(sys, n, withDeps) == IF ~withDeps \/ n \notin ClassNamesOf(sys) THEN {<<>>} ELSE {<<>>} \cup {<<d>> : d \in ClassNamesOf(sys) \ {n}}
MarksOn(sys, tg, withDeps) == {Mark(tg[1], tg[2], d) : d \in DepChoices(sys, tg[1], withDeps)}
AllMarks(sys, withDeps) == UNION {MarksOn(sys, tg, withDeps) : tg \in Targets(sys) \cup TTargets(sys) \cup UTargets(sys) \cup {<<"foreign", "A">>}}
MarkSets(sys, maxMarks, withDeps) ==
    LET M == AllMarks(sys, withDeps) IN
    {<<m>> : m \in M}
    \cup (IF maxMarks < 2 THEN {} ELSE UNION {{SetToSeq({m1, m2}) : m2 \in {m \in M : <<m.name, m.comp>> # <<m1.name, m1.comp>>}} : m1 \in M})
WithMarks(sys, ms, step) == [classes |-> sys.classes, nla |-> sys.nla, nlaDep |-> NlaDep(sys), fault |-> sys.fault, marks |-> ms, step |-> step]
\* the fault of an uninitialised constant is cured by marking it; a marked class must not be ordered after itself
Admissible(sys) ==
    /\ OrderAcyclic(sys)
    /\ (sys.fault.kind # NoneS => sys.fault.name \in ExtClasses(sys))
    \* two marks on the same class must not declare different dependencies (the analyser keeps the first mark's)
    /\ \A i, j \in DOMAIN sys.marks : sys.marks[i].name = sys.marks[j].name => sys.marks[i].deps = sys.marks[j].deps

\* ---------------------------------------------------------------- ground truth after marking
ValidTypes == {"ode", "dae", "nla", "algebraic"}
\* the model type is only pinned down when neither a state nor the implicit unknown is marked
TypeAfter(sys) == IF "u" \in ExtClasses(sys) THEN {IF HasStates(sys) THEN "ode" ELSE "algebraic"}
                  ELSE IF \E n \in ExtClasses(sys) : Get(sys, n).role = "state" THEN ValidTypes
                  ELSE {ExpectedType(sys)}
\* ---------------------------------------------------------------- values after step 1 / step 2
\* (the unknowns of the implicit equations are part of the expectation whenever a class or the equation couples them with the rest)
Coupled(s) == NlaDep(s) # NoneS \/ ReadsU(s)
Names2(s) == SetToSeq(ClassNamesOf(s) \cup (IF "u" \in ExtClasses(s) \/ (HasNla(s) /\ Coupled(s)) THEN {"u"} ELSE {}) \cup (IF HasW(s) /\ Coupled(s) THEN {"w"} ELSE {}))
ExpectOf(s) == LET s2 == [s EXCEPT !.step = 1] nm == Names2(s) IN
    [i \in DOMAIN nm |-> LET n == nm[i] isState == n \notin {"u", "w"} /\ Get(s, n).role = "state" /\ ~IsExt(s, n) IN
        [name |-> n, A |-> Seen(s, n, "A", 6), B |-> Seen(s, n, "B", 6), rate |-> IF isState THEN Rate(s, n) ELSE Undef,
                     A2 |-> Seen(s2, n, "A", 6), B2 |-> Seen(s2, n, "B", 6), rate2 |-> IF isState THEN Rate(s2, n) ELSE Undef]]
=============================================================================
