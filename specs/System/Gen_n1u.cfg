SPECIFICATION Spec
CONSTANTS NClasses = 1
 Homes = {"A"}
 Nla = {}
 RunCode = TRUE
 ZeroK = FALSE
 WithU = TRUE
 DiffForms = FALSE
INVARIANT Emit
CHECK_DEADLOCK FALSE
