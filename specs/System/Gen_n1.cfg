SPECIFICATION Spec
CONSTANTS NClasses = 1
 Homes = {"A"}
 Nla = {"none", "one", "pair", "guess", "mixed"}
 RunCode = TRUE
 ZeroK = FALSE
 WithU = FALSE
 DiffForms = FALSE
INVARIANT Emit
CHECK_DEADLOCK FALSE
