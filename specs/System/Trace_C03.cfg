SPECIFICATION Spec
CONSTANT Mode = "C03"
POSTCONDITION Accepted
CHECK_DEADLOCK FALSE
