SPECIFICATION Spec
CONSTANTS NClasses = 3
 Homes = {"A"}
 Nla = {"none"}
 RunCode = FALSE
 ZeroK = FALSE
 WithU = FALSE
 DiffForms = FALSE
INVARIANT Emit
CHECK_DEADLOCK FALSE
