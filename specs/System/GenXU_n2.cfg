SPECIFICATION Spec
CONSTANTS NClasses = 2
 Homes = {"A", "B"}
 Kinds = {"one", "pair"}
 MaxMarks = 1
 WithDeps = TRUE
INVARIANT Emit
CHECK_DEADLOCK FALSE
