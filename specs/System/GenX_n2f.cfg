SPECIFICATION Spec
CONSTANTS NClasses = 2
 Homes = {"A", "B"}
 Nla = {"none", "one"}
 ZeroK = FALSE
 MaxMarks = 2
 WithDeps = FALSE
 MaxDeps = 2
 OnlyFaulty = TRUE
INVARIANT Emit
CHECK_DEADLOCK FALSE
