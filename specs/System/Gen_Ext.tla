------------------------------ MODULE Gen_Ext ------------------------------
EXTENDS External
CONSTANTS NClasses, Homes, Nla, ZeroK, MaxMarks, WithDeps, MaxDeps, OnlyFaulty    \* OnlyFaulty: only the underconstrained systems
VARIABLE sc
NoFault == [kind |-> NoneS, name |-> NoneS]
ConstFaults(s) == {f \in Faults(s) : f.kind \in {NoneS, "constNoInit"}}
Bases == UNION {UNION {{[classes |-> s.classes, nla |-> k, fault |-> f] : f \in (IF k = NoneS THEN ConstFaults(s) ELSE {NoFault})} : k \in Nla} : s \in SystemsD(NClasses, Homes, ZeroK, MaxDeps)}
Init == sc \in UNION {{x \in {WithMarks(b, ms, 0) : ms \in MarkSets(b, MaxMarks, WithDeps)} : Admissible(x)} : b \in {y \in Bases : OnlyFaulty => y.fault.kind # NoneS}}
Next == UNCHANGED sc
Spec == Init /\ [][Next]_sc
Emit == EmitScenario([sys |-> sc, run |-> TRUE, ext |-> TRUE, expect |-> ExpectOf(sc)])
=============================================================================
