SPECIFICATION Spec
CONSTANTS NClasses = 3
 Homes = {"A"}
 Nla = {"none"}
 ZeroK = FALSE
 MaxMarks = 1
 WithDeps = TRUE
 MaxDeps = 1
 OnlyFaulty = FALSE
INVARIANT Emit
CHECK_DEADLOCK FALSE
