SPECIFICATION Spec
CONSTANTS NClasses = 2
 Homes = {"A", "B"}
 Nla = {}
 RunCode = TRUE
 ZeroK = FALSE
 WithU = TRUE
 DiffForms = FALSE
INVARIANT Emit
CHECK_DEADLOCK FALSE
