SPECIFICATION Spec
CONSTANTS NClasses = 2
 Homes = {"A", "B"}
 Nla = {}
 RunCode = TRUE
 ZeroK = FALSE
 WithU = TRUE
INVARIANT Emit
CHECK_DEADLOCK FALSE
