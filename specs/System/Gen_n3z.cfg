SPECIFICATION Spec
CONSTANTS NClasses = 3
 Homes = {"A"}
 Nla = {"none"}
 RunCode = FALSE
 ZeroK = TRUE
 WithU = FALSE
 DiffForms = FALSE
INVARIANT Emit
CHECK_DEADLOCK FALSE
