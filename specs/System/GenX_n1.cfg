SPECIFICATION Spec
CONSTANTS NClasses = 1
 Homes = {"A", "B"}
 Nla = {"none", "one"}
 ZeroK = FALSE
 MaxMarks = 2
 WithDeps = TRUE
 MaxDeps = 2
 OnlyFaulty = FALSE
INVARIANT Emit
CHECK_DEADLOCK FALSE
