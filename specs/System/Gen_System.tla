----------------------------- MODULE Gen_System -----------------------------
EXTENDS System
CONSTANTS NClasses, Homes, Nla, RunCode, ZeroK, WithU
VARIABLE sys
NoFault == [kind |-> NoneS, name |-> NoneS]
Init == sys \in UNION {UNION {{[classes |-> s.classes, nla |-> k, nlaDep |-> NoneS, fault |-> f] : f \in (IF k = NoneS THEN Faults(s) ELSE {NoFault})} : k \in Nla} : s \in Systems(NClasses, Homes, ZeroK)}
               \cup (IF WithU THEN {[classes |-> s.classes, nla |-> s.nla, nlaDep |-> s.nlaDep, fault |-> NoFault] : s \in SystemsU(NClasses, Homes, ZeroK)} ELSE {})
NlaExpect == CASE sys.nla \in {"pair", "mixed"} -> <<"u", "w">> [] sys.nla \in {"one", "guess"} -> <<"u">> [] OTHER -> <<>>
Next == UNCHANGED sys
Spec == Init /\ [][Next]_sys
Expect == [i \in DOMAIN sys.classes |-> [name |-> sys.classes[i].name, type |-> VarType(sys.classes[i]),
             A |-> Seen(sys, sys.classes[i].name, "A", 6), B |-> Seen(sys, sys.classes[i].name, "B", 6),
             rate |-> IF sys.classes[i].role = "state" THEN Rate(sys, sys.classes[i].name) ELSE Undef]]
          \o [i \in DOMAIN NlaExpect |-> [name |-> NlaExpect[i], type |-> "algebraic", A |-> Seen(sys, NlaExpect[i], "A", 6), B |-> Seen(sys, NlaExpect[i], "B", 6), rate |-> Undef]]
Emit == EmitScenario([sys |-> sys, run |-> RunCode, type |-> ExpectedType(sys), expect |-> Expect])
=============================================================================
