----------------------------- MODULE Gen_System -----------------------------
EXTENDS System
CONSTANTS NClasses, Homes, Nla, RunCode, ZeroK, WithU, DiffForms
VARIABLE sys
NoFault == [kind |-> NoneS, name |-> NoneS]
DiffSystems == UNION {{[classes |-> s.classes, nla |-> NoneS, nlaDep |-> NoneS, fault |-> [kind |-> "diffOfSum", name |-> s.classes[i].name]] :
                          i \in {k \in DOMAIN s.classes : s.classes[k].role = "state"}} : s \in Systems(NClasses, Homes, ZeroK)}
Init == IF DiffForms THEN sys \in DiffSystems ELSE sys \in UNION {UNION {{[classes |-> s.classes, nla |-> k, nlaDep |-> NoneS, fault |-> f] : f \in (IF k = NoneS THEN Faults(s) ELSE {NoFault})} : k \in Nla} : s \in Systems(NClasses, Homes, ZeroK)}
               \cup (IF WithU THEN {[classes |-> s.classes, nla |-> s.nla, nlaDep |-> s.nlaDep, fault |-> NoFault] : s \in SystemsU(NClasses, Homes, ZeroK)} ELSE {})
NlaExpect == CASE sys.nla \in {"pair", "mixed"} -> <<"u", "w">> [] sys.nla \in {"one", "guess"} -> <<"u">> [] OTHER -> <<>>
Next == UNCHANGED sys
Spec == Init /\ [][Next]_sys
Sys2 == [classes |-> sys.classes, nla |-> sys.nla, nlaDep |-> sys.nlaDep, fault |-> sys.fault, step |-> 1]
Expect == [i \in DOMAIN sys.classes |-> LET n == sys.classes[i].name st == sys.classes[i].role = "state" IN
             [name |-> n, type |-> VarType(sys.classes[i]),
              A |-> Seen(sys, n, "A", 6), B |-> Seen(sys, n, "B", 6), rate |-> IF st THEN Rate(sys, n) ELSE Undef,
              A2 |-> Seen(Sys2, n, "A", 6), B2 |-> Seen(Sys2, n, "B", 6), rate2 |-> IF st THEN Rate(Sys2, n) ELSE Undef]]
          \o [i \in DOMAIN NlaExpect |-> LET n == NlaExpect[i] IN
              [name |-> n, type |-> "algebraic", A |-> Seen(sys, n, "A", 6), B |-> Seen(sys, n, "B", 6), rate |-> Undef, A2 |-> Seen(Sys2, n, "A", 6), B2 |-> Seen(Sys2, n, "B", 6), rate2 |-> Undef]]
Emit == EmitScenario([sys |-> sys, run |-> RunCode, type |-> ExpectedType(sys), expect |-> Expect])
=============================================================================
