----------------------------- MODULE Gen_System -----------------------------
EXTENDS System
CONSTANTS NClasses, Homes, Nla, RunCode, ZeroK
VARIABLE sys
NoFault == [kind |-> NoneS, name |-> NoneS]
Init == sys \in UNION {UNION {{[classes |-> s.classes, nla |-> k, fault |-> f] : f \in (IF k = NoneS THEN Faults(s) ELSE {NoFault})} : k \in Nla} : s \in Systems(NClasses, Homes, ZeroK)}
Next == UNCHANGED sys
Spec == Init /\ [][Next]_sys
Expect == [i \in DOMAIN sys.classes |-> [name |-> sys.classes[i].name, type |-> VarType(sys.classes[i]),
             A |-> Seen(sys, sys.classes[i].name, "A", 6), B |-> Seen(sys, sys.classes[i].name, "B", 6),
             rate |-> IF sys.classes[i].role = "state" THEN Rate(sys, sys.classes[i].name) ELSE Undef]]
Emit == EmitScenario([sys |-> sys, run |-> RunCode, type |-> ExpectedType(sys), expect |-> Expect])
=============================================================================
