SPECIFICATION Spec
CONSTANTS NClasses = 2
 Homes = {"A", "B"}
 Nla = {"none", "one"}
 ZeroK = FALSE
 MaxMarks = 2
 WithDeps = TRUE
 MaxDeps = 2
INVARIANT Emit
CHECK_DEADLOCK FALSE
