------------------------------ MODULE Gen_ExtU ------------------------------
(* C20: marks on systems that are coupled with implicit equations - classes read the unknown u (and w of the pair), the        *)
(* equation u + u = 8 + nlaDep may read a state or t.  Marked: a class, the variable of integration, a foreign variable, or   *)
(* (one unknown only) u itself.                                                                                               *)
EXTENDS External
CONSTANTS NClasses, Homes, Kinds, MaxMarks, WithDeps
VARIABLE sc
NoFault == [kind |-> NoneS, name |-> NoneS]
Bases == UNION {{[classes |-> s.classes, nla |-> s.nla, nlaDep |-> s.nlaDep, fault |-> NoFault] : s \in SystemsUK(NClasses, Homes, FALSE, k)} : k \in Kinds}
Init == sc \in UNION {{x \in {WithMarks(b, ms, 0) : ms \in MarkSets(b, MaxMarks, WithDeps)} : Admissible(x)} : b \in Bases}
Next == UNCHANGED sc
Spec == Init /\ [][Next]_sc
Emit == EmitScenario([sys |-> sc, run |-> TRUE, ext |-> TRUE, expect |-> ExpectOf(sc)])
=============================================================================
