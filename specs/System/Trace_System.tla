----------------------------- MODULE Trace_System -----------------------------
(* Mode "C05": classification against the ground truth, well-formedness of the AnalyserModel, invariance under      *)
(*             reordering / renaming.                                                                                *)
(* Mode "C03": values computed by the generated C and Python code for every class, rates, NLA residuals.             *)
(* Mode "C17": declared structure of the generated code against the AnalyserModel.                                   *)
EXTENDS External, LoggerObs, KnownFindings
CONSTANT Mode
VARIABLE l
Init == l = 1
SR(s) == {s[i] : i \in DOMAIN s}
NlaNames(sys) == CASE sys.nla \in {"pair", "mixed"} -> {"u", "w"} [] sys.nla \in {"one", "guess"} -> {"u"} [] OTHER -> {}
ClassNames(sys) == {sys.classes[i].name : i \in DOMAIN sys.classes} \cup NlaNames(sys)
RoleOf(sys, n) == IF n \in NlaNames(sys) THEN "nla" ELSE Get(sys, n).role
\* an NLA unknown fed by constants only may be reported as a computed constant; a computed constant that reads it (the solution of a
\* constant implicit equation is a constant, but it is only available once the NLA system has been solved) as algebraic
TypesOf(sys, n) == IF n \in NlaNames(sys) THEN (IF n = "u" /\ ~UConst(sys) THEN {"algebraic"} ELSE {"algebraic", "computed_constant"})
                   ELSE {VarType(Get(sys, n))} \cup (IF Get(sys, n).role = "cc" /\ ReadsUT(sys, n, 6) THEN {"algebraic"} ELSE {})
EqTypesOf(sys, n) == IF n \in NlaNames(sys) THEN {"nla"} ELSE EqTypes(Get(sys, n)) \cup (IF Get(sys, n).role = "cc" /\ ReadsUT(sys, n, 6) THEN {"algebraic"} ELSE {})
NonVoi(v) == SelectSeq(v.vars, LAMBDA x : x.kind # "voi")
ClassTypes(v) == {<<v.vars[i].name, v.vars[i].type>> : i \in DOMAIN v.vars}
Dense(v, kind) == LET idx == {v.vars[i].index : i \in {k \in DOMAIN v.vars : v.vars[k].kind = kind}} IN idx = 0..(Cardinality(idx) - 1) /\ Cardinality(idx) = Cardinality({k \in DOMAIN v.vars : v.vars[k].kind = kind})
RECURSIVE ReachEq(_, _, _)
\* ordering constraints: an equation must come after the (non-ODE, non-NLA) equations it depends on; reading a state does
\* not order anything (the state's value is an input of the step), so edges into ODE equations are not ordering edges
OrderDeps(eqs, i) == {j \in SR(eqs[i + 1].deps) : j >= 0 /\ eqs[j + 1].type \notin {"ode", "nla"}}
ReachEq(eqs, S, n) == IF n = 0 THEN S ELSE ReachEq(eqs, S \cup UNION {OrderDeps(eqs, i) : i \in S}, n - 1)
Acyclic(eqs) == \A i \in DOMAIN eqs : eqs[i].type = "nla" \/ (i - 1) \notin ReachEq(eqs, OrderDeps(eqs, i - 1), Len(eqs))

C05Problems(ev) ==
    LET sys == ev.sys base == ev.variants[1] nv == NonVoi(base) IN
    (IF base.validErrors = 0 THEN {} ELSE {"harness: the generated model is not valid"})
    \cup (IF Faulty(sys) THEN (IF base.type \in ErrTypes /\ base.analyserErrors > 0 THEN {} ELSE {"an under- / over-constrained system is not reported as such with an error"})
          ELSE IF base.type = ExpectedType(sys) THEN {} ELSE {"model type differs from the ground truth"})
    \* (a state computed twice: every ordering must report the model as not valid, with an error; which of the three error
    \*  classes is named is not pinned down - with the initial value on another member of the class it is "underconstrained")
    \cup (IF sys.fault.kind = "duplicateOde"
          THEN (IF \A i \in DOMAIN ev.variants : ev.variants[i].type \in ErrTypes /\ ev.variants[i].analyserErrors > 0 THEN {} ELSE {"an under- / over-constrained system is not reported as such with an error"})
          ELSE IF \A i \in DOMAIN ev.variants : ev.variants[i].type = base.type /\ ClassTypes(ev.variants[i]) = ClassTypes(base) THEN {} ELSE {"classification changes with the order / names of components, variables or equations"})
    \cup (IF base.type \in ErrTypes \/ \A i \in DOMAIN ev.variants : ev.variants[i].sig = base.sig THEN {} ELSE {"equation types, state / rate dependence or dependencies change with the order / names of components, variables or equations"})
    \cup (IF base.type \in ErrTypes THEN {} ELSE
           (IF {nv[i].name : i \in DOMAIN nv} = ClassNames(sys) /\ Len(nv) = Cardinality(ClassNames(sys)) THEN {} ELSE {"a class of connected variables does not appear exactly once"})
           \cup (IF \A i \in DOMAIN nv : nv[i].name \in ClassNames(sys) => nv[i].type \in TypesOf(sys, nv[i].name) THEN {} ELSE {"variable type differs from the ground truth"})
           \cup (IF HasStates(sys) = (\E i \in DOMAIN base.vars : base.vars[i].kind = "voi" /\ base.vars[i].name = "t" /\ base.vars[i].type = "variable_of_integration") THEN {} ELSE {"variable of integration wrong"})
           \cup (IF Dense(base, "s") /\ Dense(base, "v") THEN {} ELSE {"indices are not dense and unique"})
           \cup (IF \A i \in DOMAIN nv : nv[i].name \in ClassNames(sys) =>
                     LET by == base.computedBy[nv[i].id] IN
                     IF RoleOf(sys, nv[i].name) = "const" THEN TRUE
                     ELSE /\ Len(by) >= 1
                          /\ \A k \in DOMAIN by : by[k] >= 0 /\ nv[i].id \in SR(base.eqs[by[k] + 1].vars) /\ base.eqs[by[k] + 1].type \in EqTypesOf(sys, nv[i].name)
                          /\ (RoleOf(sys, nv[i].name) # "nla" => Len(by) = 1)
                 THEN {} ELSE {"a computed variable is not computed by exactly one equation (or one NLA system) of the right type"})
           \cup (IF \A i \in DOMAIN nv : (nv[i].name \in ClassNames(sys) /\ RoleOf(sys, nv[i].name) \in {"cc", "alg", "state"}) =>
                     LET c == Get(sys, nv[i].name) e == base.eqs[base.computedBy[nv[i].id][1] + 1] IN
                     \A j \in DOMAIN c.deps : (c.deps[j] \notin {"t", "u", "w"} /\ Get(sys, c.deps[j]).role = "alg") =>
                         \E m \in DOMAIN nv : nv[m].name = c.deps[j] /\ base.computedBy[nv[m].id][1] \in SR(e.deps)
                 THEN {} ELSE {"an equation does not depend on the equation computing an algebraic variable it reads"})
           \cup (IF Acyclic(base.eqs) THEN {} ELSE {"directly solved equations cannot be ordered"})
           \cup (IF LogCoherent(base.alog) THEN {} ELSE {"incoherent issue list"}))

Flags(ev) == \A i \in DOMAIN ev.values : LET f == ev.values[i] IN f.okC /\ f.okPy /\ ("rateOkC" \in DOMAIN f => f.rateOkC /\ f.rateOkPy)
Flags2(ev) == \A i \in DOMAIN ev.values : LET f == ev.values[i] IN f.ok2C /\ f.ok2Py /\ ("rate2OkC" \in DOMAIN f => f.rate2OkC /\ f.rate2OkPy)
Sys2Of(sys) == [classes |-> sys.classes, nla |-> sys.nla, nlaDep |-> sys.nlaDep, fault |-> sys.fault, step |-> 1]
ExpectOk(ev) == \A i \in DOMAIN ev.expect : LET e == ev.expect[i] IN
                   e.A = Seen(ev.sys, e.name, "A", 6) /\ e.B = Seen(ev.sys, e.name, "B", 6) /\ e.A2 = Seen(Sys2Of(ev.sys), e.name, "A", 6) /\ e.B2 = Seen(Sys2Of(ev.sys), e.name, "B", 6)
                   /\ ((e.name \notin {"u", "w"} /\ Get(ev.sys, e.name).role = "state") => e.rate = Rate(ev.sys, e.name) /\ e.rate2 = Rate(Sys2Of(ev.sys), e.name))
C03Problems(ev) ==
    IF ~ev.run \/ "values" \notin DOMAIN ev THEN (IF ev.run /\ ev.variants[1].type \notin ErrTypes THEN {"generated code was not produced for a valid model"} ELSE {})
    ELSE (IF ev.c.built /\ ev.c.ran THEN {} ELSE {"generated C does not compile / run"})
         \cup (IF ev.py.built /\ ev.py.ran THEN {} ELSE {"generated Python does not run"})
         \cup (IF ExpectOk(ev) THEN {} ELSE {"harness: echoed expectation differs from the specification's"})
         \cup (IF Flags(ev) THEN {} ELSE {"generated code computes a wrong value"})
         \cup (IF Flags2(ev) THEN {} ELSE {"generated code computes a wrong value after the states and the variable of integration have moved on (second step)"})
         \cup (IF ev.c.residualsOk /\ ev.py.residualsOk THEN {} ELSE {"NLA objective functions do not vanish at the solution"})
         \cup (IF ev.sys.nla # NoneS => (ev.c.residualCount > 0 /\ ev.py.residualCount > 0) THEN {} ELSE {"NLA system not solved through the objective functions"})

TypeCodeOde == [variable_of_integration |-> "0", state |-> "1", constant |-> "2", computed_constant |-> "3", algebraic |-> "4", external |-> "5"]
TypeCodeAlg == [constant |-> "0", computed_constant |-> "1", algebraic |-> "2", external |-> "3"]
C17Core(base, ode, c, py) ==
         LET ns == Cardinality({k \in DOMAIN base.vars : base.vars[k].kind = "s"})
             nvv == Cardinality({k \in DOMAIN base.vars : base.vars[k].kind = "v"})
             code == IF ode THEN TypeCodeOde ELSE TypeCodeAlg
             Row(r, kind, i) == \E k \in DOMAIN base.vars : base.vars[k].kind = kind /\ base.vars[k].index = i - 1 /\ r.name = base.vars[k].name /\ r.component = base.vars[k].comp
                                                            /\ r.units = base.vars[k].units /\ r.type = code[base.vars[k].type]
         IN (IF c.built /\ c.diag = "" THEN {} ELSE {"generated C does not compile cleanly (or does not link: a declared function is not defined)"})
            \cup (IF py.built THEN {} ELSE {"generated Python does not load"})
            \cup (IF c.variableCount = nvv /\ py.variableCount = nvv /\ (ode => c.stateCount = ns /\ py.stateCount = ns) THEN {} ELSE {"STATE_COUNT / VARIABLE_COUNT differ from the analysed model"})
            \cup (IF Len(c.variableInfo) = nvv /\ (\A i \in DOMAIN c.variableInfo : Row(c.variableInfo[i], "v", i)) /\ (\A i \in DOMAIN c.stateInfo : Row(c.stateInfo[i], "s", i))
                     /\ Len(c.stateInfo) = (IF ode THEN ns ELSE 0) THEN {} ELSE {"C info tables differ from the analyser variables"})
            \cup (IF Len(py.variableInfo) = nvv /\ (\A i \in DOMAIN py.variableInfo : Row(py.variableInfo[i], "v", i)) /\ (\A i \in DOMAIN py.stateInfo : Row(py.stateInfo[i], "s", i)) THEN {} ELSE {"Python info tables differ from the analyser variables"})
            \cup (IF c.infoFits THEN {} ELSE {"an info string does not fit its declared buffer"})
            \cup (IF SR(c.declared) \subseteq SR(c.defined) /\ Len(c.defined) = Cardinality(SR(c.defined)) /\ Len(c.declared) = Cardinality(SR(c.declared)) THEN {} ELSE {"a function declared in the interface is not defined exactly once"})
C17Problems(ev) ==
    IF ev.e = "ext" THEN (IF "c" \notin DOMAIN ev THEN {} ELSE C17Core(ev.marked, HasStates(ev.sys), ev.c, ev.py))        \* models with external variables
    ELSE IF ~ev.run \/ "c" \notin DOMAIN ev THEN {}
    ELSE C17Core(ev.variants[1], HasStates(ev.sys), ev.c, ev.py)
\* ---------------------------------------------------------------- C20: external variables
MESSAGE == "M"
ByName(vars, n) == vars[CHOOSE i \in DOMAIN vars : vars[i].name = n]
HasName(vars, n) == \E i \in DOMAIN vars : vars[i].name = n
Count(seq, P(_)) == Cardinality({i \in DOMAIN seq : P(seq[i])})
C20Problems(ev) ==
    LET sys == ev.sys  m == ev.marked  p == ev.plain  nv == NonVoi(ev.marked)  pv == NonVoi(ev.plain)
        ext == ExtClasses(sys)
        plainValid == p.type \in ValidTypes
        EqTypeOf(a, v) == {a.eqs[j + 1].type : j \in {a.computedBy[v.id][k] : k \in DOMAIN a.computedBy[v.id]} \ {-1}}    \* -1: the hidden placeholder of a constant
        groupNames == MarkedNames(sys) \ {"foreign"}
        MarksOf(n) == {i \in DOMAIN sys.marks : sys.marks[i].name = n}
        NeedsPrimaryMsg(n) == n \in ext /\ HasName(nv, n) /\ (Cardinality(MarksOf(n)) > 1 \/ \E i \in MarksOf(n) : sys.marks[i].comp # ByName(nv, n).comp)
        InitKnown(d) == IsExt(sys, d) \/ (d \in ClassNamesOf(sys) /\ Get(sys, d).role \in {"const", "state"})
        CallsOk(calls) == \A i \in DOMAIN calls : LET cl == calls[i] IN
                              /\ cl.name \in ext
                              /\ \A d \in DeclaredDeps(sys, cl.name) : (cl.phase >= 2 \/ InitKnown(d)) => d \in SR(cl.defined)
    IN
    (IF ev.validErrors = 0 /\ (\A i \in DOMAIN ev.applied : ev.applied[i].found /\ ev.applied[i].added /\ \A k \in DOMAIN ev.applied[i].depsAdded : ev.applied[i].depsAdded[k]) THEN {} ELSE {"harness: model invalid or a mark could not be applied"})
    \cup (IF ev.expect = ExpectOf(sys) THEN {} ELSE {"harness: echoed expectation differs from the specification's"})
    \cup (IF m.type \in TypeAfter(sys) /\ m.analyserErrors = 0 THEN {} ELSE {"marking does not give a valid model of the expected type"})
    \cup (IF m.type \notin ValidTypes THEN {} ELSE
          (IF {nv[i].name : i \in {k \in DOMAIN nv : nv[k].type = "external"}} = ext /\ Len(nv) = Cardinality({nv[i].name : i \in DOMAIN nv}) THEN {} ELSE {"the external variables are not exactly the marked classes"})
          \cup (IF \A i \in DOMAIN nv : nv[i].type = "external" => (Len(m.computedBy[nv[i].id]) = 1 /\ LET e == m.eqs[m.computedBy[nv[i].id][1] + 1] IN e.type = "external" /\ e.vars = <<nv[i].id>>)
                THEN {} ELSE {"an external variable does not have exactly one placeholder equation"})
          \cup (IF \A i \in DOMAIN m.eqs : m.eqs[i].type = "external" => \E k \in DOMAIN nv : nv[k].type = "external" /\ m.eqs[i].vars = <<nv[k].id>> THEN {} ELSE {"an external equation that belongs to no external variable"})
          \cup (IF \A n \in ClassNamesOf(sys) \ ext : Untouched(sys, n) =>
                    /\ HasName(nv, n) /\ (ReadsUT(sys, n, 6) \/ ByName(nv, n).type = VarType(Get(sys, n)))    \* (what reads an implicit unknown: typed as the unmarked analysis types it)
                    /\ (plainValid /\ HasName(pv, n) => ByName(nv, n).type = ByName(pv, n).type /\ ByName(nv, n).kind = ByName(pv, n).kind /\ EqTypeOf(m, ByName(nv, n)) = EqTypeOf(p, ByName(pv, n)))
                THEN {} ELSE {"a variable that does not depend on the external variables changed type or equation"})
          \cup (IF (sys.nla # NoneS /\ "u" \notin ext) => (HasName(nv, "u") /\ plainValid /\ HasName(pv, "u") /\ ByName(nv, "u").type = ByName(pv, "u").type /\ EqTypeOf(m, ByName(nv, "u")) = {"nla"}) THEN {} ELSE {"the implicit unknown changed type or equation"})
          \cup (IF HasStates(sys) = (\E i \in DOMAIN m.vars : m.vars[i].kind = "voi" /\ m.vars[i].name = "t") THEN {} ELSE {"variable of integration wrong"})
          \cup (IF Dense(m, "s") /\ Dense(m, "v") THEN {} ELSE {"indices are not dense and unique"})
          \cup (IF ext = {} /\ plainValid => (m.type = p.type /\ m.vars = p.vars /\ m.eqs = p.eqs) THEN {} ELSE {"marks that must be ignored changed the analysis"})
          \cup (IF \A i \in DOMAIN m.issues : m.issues[i].level = MESSAGE THEN {} ELSE {"marking produced something stronger than a message"})
          \cup (IF /\ Count(m.issues, LAMBDA x : x.rule = "ANALYSER_EXTERNAL_VARIABLE_DIFFERENT_MODEL") = Cardinality(MarksOf("foreign"))
                   /\ Count(m.issues, LAMBDA x : x.rule = "ANALYSER_EXTERNAL_VARIABLE_VOI") = (IF MarksOf("t") = {} THEN 0 ELSE 1)
                   /\ Count(m.issues, LAMBDA x : x.rule = "ANALYSER_EXTERNAL_VARIABLE_USE_PRIMARY_VARIABLE") = Cardinality({n \in ext : NeedsPrimaryMsg(n)})
                   /\ \A n \in ext : NeedsPrimaryMsg(n) => \E i \in DOMAIN m.issues : m.issues[i].rule = "ANALYSER_EXTERNAL_VARIABLE_USE_PRIMARY_VARIABLE" /\ m.issues[i].var = n /\ m.issues[i].comp = ByName(nv, n).comp
                   /\ Len(m.issues) = Cardinality(MarksOf("foreign")) + (IF MarksOf("t") = {} THEN 0 ELSE 1) + Cardinality({n \in ext : NeedsPrimaryMsg(n)})
                THEN {} ELSE {"a mark on the variable of integration, a non-primary variable or a foreign variable is not reported with exactly one message"})
          \cup (IF LogCoherent(m.alog) THEN {} ELSE {"incoherent issue list"})
          \cup (IF "values" \notin DOMAIN ev THEN {"generated code was not produced"} ELSE
                (IF ev.c.built /\ ev.c.ran /\ ev.c.diag = "" THEN {} ELSE {"generated C does not compile cleanly / run"})
                \cup (IF ev.py.built /\ ev.py.ran THEN {} ELSE {"generated Python does not run"})
                \cup (IF ev.usesCallback = (ext # {}) /\ ev.pyUsesCallback = (ext # {}) THEN {} ELSE {"the generated code takes a callback exactly when there are external variables"})
                \cup (IF \A i \in DOMAIN ev.values : ev.values[i].known /\ ev.values[i].ok1 THEN {} ELSE {"a value is wrong after the first step"})
                \cup (IF \A i \in DOMAIN ev.values : ev.values[i].known /\ ev.values[i].ok2 THEN {} ELSE {"a value does not follow the callback's new value in the second step"})
                \cup (IF CallsOk(ev.callsC) /\ CallsOk(ev.callsPy) THEN {} ELSE {"the callback is called before a declared dependency is computed"})
                \cup (IF ext # {} => (\A n \in ext : \E i \in DOMAIN ev.callsC : ev.callsC[i].name = n /\ ev.callsC[i].phase >= 4) /\ (\A n \in ext : \E i \in DOMAIN ev.callsPy : ev.callsPy[i].name = n /\ ev.callsPy[i].phase >= 4) THEN {} ELSE {"an external variable is not obtained through the callback in the second step"})))

\* Known deviation NlaOrderDependence: exactly the recorded family (one-unknown implicit equation + implicit equation sharing the
\* unknown with an initialised variable); one listing order gives the expected type, the other "overconstrained"; nothing else is wrong.
\* Known deviation DiffOfExpression: an ODE written as the derivative of an expression, d(x + 0)/dt = ..., is not reported as
\* unsupported; the analyser makes x an algebraic unknown of an NLA equation and the model is no ODE model any more.
DevDiff(d, ev) ==
    /\ d = "DiffOfExpression" /\ Mode = "C03" /\ ev.e = "system" /\ DiffOfSum(ev.sys)
    /\ ev.variants[1].type \in {"dae", "nla"} /\ ev.variants[1].analyserErrors = 0
    /\ \E i \in DOMAIN ev.variants[1].vars : ev.variants[1].vars[i].name = ev.sys.fault.name /\ ev.variants[1].vars[i].type = "algebraic"
DevNla(d, ev) ==
    /\ d = "NlaOrderDependence" /\ Mode = "C05" /\ ev.sys.nla = "mixed"
    /\ "classification changes with the order / names of components, variables or equations" \in C05Problems(ev)
    /\ C05Problems(ev) \subseteq {"classification changes with the order / names of components, variables or equations",
                                   "equation types, state / rate dependence or dependencies change with the order / names of components, variables or equations"}
    /\ \A i \in DOMAIN ev.variants : ev.variants[i].type \in {ExpectedType(ev.sys), "overconstrained"}
    /\ ev.variants[1].type = ExpectedType(ev.sys)
Dev(d, ev) == DevDiff(d, ev) \/ DevNla(d, ev)
Problems(ev) == CASE Mode = "C05" -> C05Problems(ev) [] Mode = "C03" -> C03Problems(ev) [] Mode = "C17" -> C17Problems(ev) [] Mode = "C20" -> C20Problems(ev)
Next == /\ l <= Len(TraceLog) /\ l' = l + 1
        /\ LET ev == TraceLog[l] IN
           IF ev.e = "Reset" THEN TRUE
           ELSE IF ev.e \notin (CASE Mode = "C20" -> {"ext"} [] Mode = "C17" -> {"system", "ext"} [] OTHER -> {"system"}) THEN Verdict("bad", l, ev.sc, <<ev.e>>)
           ELSE IF Problems(ev) = {} THEN TRUE
           ELSE IF \E d \in KnownDeviations : Dev(d, ev) THEN Verdict("known", l, ev.sc, CHOOSE d \in KnownDeviations : Dev(d, ev))
           ELSE Verdict("bad", l, ev.sc, <<Problems(ev), ev.sys, IF ev.e = "ext" THEN ev.marked.type ELSE ev.variants[1].type>>)
Spec == Init /\ [][Next]_l
Accepted == LET d == TLCGet("stats").diameter IN PrintT(<<"DEPTH", d>>) /\ d - 1 = Len(TraceLog)
=============================================================================
