------------------------------- MODULE System -------------------------------
(* C05 (and the system level of C03 / C17 / C20): systems of equations with    *)
(* ground-truth roles by construction.                                         *)
(* A class is a set of connected variables (one per component that uses it).   *)
(*   const : initial value, no equation                                        *)
(*   cc    : x = k + sum(deps), deps are constants / computed constants        *)
(*   state : dx/dt = k + sum(deps), initial value                              *)
(*   alg   : x = k + sum(deps), some dep is a state, an algebraic variable or t *)
(*   nla   : unknown of a system of implicit equations                          *)
(* Component A works in seconds, component B in milliseconds: a class seen from *)
(* the other component is scaled by 10^3 / 10^-3.                               *)
EXTENDS Expr, TraceIO
NoneS == "none"
Class(n, role, init, k, deps, home) == [name |-> n, role |-> role, init |-> init, k |-> k, deps |-> deps, home |-> home]
LogOf(comp) == IF comp = "B" THEN -3 ELSE 0
Pow10(e) == IF e >= 0 THEN IPow(I(10), e) ELSE QDiv(I(1), IPow(I(10), -e))
Has(sys, n) == \E i \in DOMAIN sys.classes : sys.classes[i].name = n
Get(sys, n) == sys.classes[CHOOSE i \in DOMAIN sys.classes : sys.classes[i].name = n]
HasStates(sys) == \E i \in DOMAIN sys.classes : sys.classes[i].role = "state"

\* ---------------------------------------------------------------- values
\* External variables (C20): sys.marks lists the variables handed to Analyser::addExternalVariable; the value of a marked class is
\* whatever the callback returns - ExtVal, expressed in the units of the class's home component (u lives in A) - and differs
\* between the two steps of the run (sys.step) so that everything depending on it has to be computed again.
\* The generated code is run in two steps: the usual initialise / computeComputedConstants / computeRates / computeVariables at t = 0,
\* then - as an integrator would after a step - with every state advanced by 5, computeVariables alone, followed by computeRates.
\* Everything that depends on a state or on an external variable has to follow.  (t stays 0: by the library's pinned design - the
\* Hodgkin-Huxley expected files - a variable that depends on t alone is refreshed by computeRates only.)
StepOf(sys) == IF "step" \in DOMAIN sys THEN sys.step ELSE 0
IsExt(sys, n) == "marks" \in DOMAIN sys /\ \E i \in DOMAIN sys.marks : sys.marks[i].name = n
ExtBaseOf == [x1 |-> 107, x2 |-> 114, x3 |-> 121, u |-> 128]
\* A well-behaved callback is a function of what the mark declares the variable to depend on: its value for a class changes in the
\* second step only if a declared dependency moved - a state, or something that reads a state or a moving external variable.
DeclaredDeps(sys, n) == UNION {{sys.marks[i].deps[j] : j \in DOMAIN sys.marks[i].deps} : i \in {k \in DOMAIN sys.marks : sys.marks[k].name = n}}
RECURSIVE Moving(_, _, _)
Moving(sys, n, depth) ==
    IF depth = 0 \/ n \in {"t", "w"} THEN FALSE
    ELSE IF IsExt(sys, n) THEN \E d \in DeclaredDeps(sys, n) : Moving(sys, d, depth - 1)
    ELSE IF n = "u" THEN ("nlaDep" \in DOMAIN sys /\ sys.nlaDep # "none" /\ Moving(sys, sys.nlaDep, depth - 1))
    ELSE LET c == sys.classes[CHOOSE i \in DOMAIN sys.classes : sys.classes[i].name = n] IN
         c.role = "state" \/ (c.role \in {"cc", "alg"} /\ \E j \in DOMAIN c.deps : Moving(sys, c.deps[j], depth - 1))
ExtVal(sys, n) == I(ExtBaseOf[n] + (IF Moving(sys, n, 6) THEN 1000 * sys.step ELSE 0))
\* The unknowns of the implicit equations live in component A:  one / guess / mixed: u + u = 8 (+ nlaDep), mixed: u + w = 6;
\* pair: u + w = 5, u - w = 1.  With a dependency (a state or t) on the right-hand side u is a genuine algebraic variable.
NlaDep(sys) == IF "nlaDep" \in DOMAIN sys THEN sys.nlaDep ELSE NoneS
UConst(sys) == NlaDep(sys) = NoneS
RECURSIVE Base(_, _, _)
RECURSIVE UVal(_, _)
Seen(sys, n, comp, depth) ==            \* value of class n expressed in the units of component comp
    IF n = "t" THEN I(0)
    ELSE IF n = "u" THEN QMul(UVal(sys, depth), Pow10(0 - LogOf(comp)))
    ELSE IF n = "w" THEN QMul(I(2), Pow10(0 - LogOf(comp)))
    ELSE LET c == Get(sys, n) IN QMul(Base(sys, n, depth), Pow10(LogOf(c.home) - LogOf(comp)))
Base(sys, n, depth) ==                   \* value in the units of the class's home component
    LET c == Get(sys, n) IN
    IF depth = 0 THEN Undef
    ELSE IF IsExt(sys, n) THEN ExtVal(sys, n)
    ELSE CASE c.role = "const" -> I(c.init)
           [] c.role = "state" -> I(c.init + 5 * StepOf(sys))
           [] c.role \in {"cc", "alg"} -> LET RECURSIVE Sum(_) Sum(i) == IF i > Len(c.deps) THEN I(c.k) ELSE QAdd(Seen(sys, c.deps[i], c.home, depth - 1), Sum(i + 1)) IN Sum(1)
           [] c.role = "nla" -> I(c.init)        \* for NLA unknowns init holds the known solution
UVal(sys, depth) ==
    IF depth = 0 THEN Undef
    ELSE IF IsExt(sys, "u") THEN ExtVal(sys, "u")
    ELSE IF sys.nla = "pair" THEN I(3)
    ELSE IF UConst(sys) THEN I(4) ELSE QAdd(I(4), QDiv(Seen(sys, NlaDep(sys), "A", depth - 1), I(2)))
Rate(sys, n) == LET c == Get(sys, n) IN
                LET RECURSIVE Sum(_) Sum(i) == IF i > Len(c.deps) THEN I(c.k) ELSE QAdd(Seen(sys, c.deps[i], c.home, 6), Sum(i + 1)) IN Sum(1)

\* ---------------------------------------------------------------- ground truth
NlaKind(sys) == sys.nla
\* single faults that make a well-posed system under-, over- or unsuitably constrained
Faults(sys) == {[kind |-> NoneS, name |-> NoneS]}
    \cup {[kind |-> "stateNoInit", name |-> sys.classes[i].name] : i \in {k \in DOMAIN sys.classes : sys.classes[k].role = "state"}}
    \cup {[kind |-> "constNoInit", name |-> sys.classes[i].name] : i \in {k \in DOMAIN sys.classes : sys.classes[k].role = "const"}}
    \* the ODE of a state listed twice (the second copy with another constant term), where the ODE reads nothing but states and the
    \* variable of integration: no variable is left that the second copy could be taken to compute - over-constrained
    \cup {[kind |-> "duplicateOde", name |-> sys.classes[i].name] : i \in {k \in DOMAIN sys.classes : sys.classes[k].role = "state"
              /\ \A j \in DOMAIN sys.classes[k].deps : sys.classes[k].deps[j] = "t" \/ (\E q \in DOMAIN sys.classes : sys.classes[q].name = sys.classes[k].deps[j] /\ sys.classes[q].role = "state")}}
    \* (a second equation for any other variable, or an initial value on a computed variable, is not a fault with a defined ground truth:
    \*  the analyser may legitimately read any initialised variable of the system as an unknown with an initial guess)
\* "diffOfSum" is not a fault: the ODE of the named state is written d(x + 0)/dt = ... (the derivative of an expression), which
\* means the same as dx/dt = ...
Faulty(sys) == "fault" \in DOMAIN sys /\ sys.fault.kind \notin {NoneS, "diffOfSum"}
DiffOfSum(sys) == "fault" \in DOMAIN sys /\ sys.fault.kind = "diffOfSum"
ExpectedType(sys) == IF sys.nla # NoneS THEN (IF HasStates(sys) THEN "dae" ELSE "nla") ELSE IF HasStates(sys) THEN "ode" ELSE "algebraic"
VarType(c) == CASE c.role = "const" -> "constant" [] c.role = "cc" -> "computed_constant" [] c.role = "state" -> "state" [] c.role \in {"alg", "nla"} -> "algebraic"
EqTypes(c) == CASE c.role = "cc" -> {"variable_based_constant", "true_constant"} [] c.role = "state" -> {"ode"} [] c.role = "alg" -> {"algebraic"} [] c.role = "nla" -> {"nla"} [] OTHER -> {}
\* does class n read (through equations) the unknown of the implicit equation
RECURSIVE ReadsUT(_, _, _)
ReadsUT(sys, n, depth) == IF n = "t" \/ depth = 0 THEN FALSE ELSE IF n \in {"u", "w"} THEN TRUE ELSE LET c == Get(sys, n) IN \E j \in DOMAIN c.deps : ReadsUT(sys, c.deps[j], depth - 1)
ErrTypes == {"invalid", "underconstrained", "overconstrained", "unsuitably_constrained"}
\* components in which a class has a member variable: its home and every component of a class that reads it
UsedIn(sys, n) == (IF n = "t" THEN {"A"} ELSE {Get(sys, n).home}) \cup {sys.classes[i].home : i \in {k \in DOMAIN sys.classes : \E j \in DOMAIN sys.classes[k].deps : sys.classes[k].deps[j] = n}}

\* ---------------------------------------------------------------- well-posed systems of the bounded scope
HasNla(sys) == sys.nla # NoneS
HasW(sys) == sys.nla \in {"pair", "mixed"}
NonConst(sys, n) == n = "t" \/ (n \in {"u", "w"} /\ HasNla(sys) /\ ~UConst(sys)) \/ (n \notin {"t", "u", "w"} /\ Get(sys, n).role \in {"state", "alg"})
WellPosed(sys) ==
    \A i \in DOMAIN sys.classes : LET c == sys.classes[i] IN
        /\ \A j \in DOMAIN c.deps : c.deps[j] = "t" \/ (c.deps[j] = "u" /\ HasNla(sys)) \/ (c.deps[j] = "w" /\ HasW(sys)) \/ (c.deps[j] \notin {"u", "w"} /\ Has(sys, c.deps[j]))
        /\ c.role = "const" => c.deps = <<>>
        /\ c.role = "cc" => c.deps # <<>> /\ \A j \in DOMAIN c.deps : \/ (c.deps[j] \in {"u", "w"} /\ UConst(sys))       \* the solution of a constant implicit equation is a constant
                                                                   \/ /\ c.deps[j] \notin {"t", "u", "w"} /\ Get(sys, c.deps[j]).role \in {"const", "cc"}
                                                                      /\ (\E q \in 1..(i - 1) : sys.classes[q].name = c.deps[j])
        /\ c.role = "alg" => /\ (\E j \in DOMAIN c.deps : NonConst(sys, c.deps[j]))
                             /\ \A j \in DOMAIN c.deps : c.deps[j] \in {"t", "u", "w"} \/ (\E q \in 1..(i - 1) : sys.classes[q].name = c.deps[j]) \/ Get(sys, c.deps[j]).role = "state"
        /\ c.role = "state" => c.home = "A"
        /\ (\E j \in DOMAIN c.deps : c.deps[j] = "t") => HasStates(sys)
Names == <<"x1", "x2", "x3">>
DepSeqs(S) == {<<>>} \cup {<<a>> : a \in S} \cup {<<a, b>> : a \in S, b \in S}
\* zeroK: equations with dependencies have no constant term (dx/dt = x rather than dx/dt = 1 + x)
\* (enumerated role by role so that the per-role restrictions prune early: constants read nothing, computed constants and
\*  algebraic variables read something, states live in A)
RECURSIVE SeqProd(_, _)
SeqProd(S, i) == IF i > Len(S) THEN {<<>>} ELSE UNION {{<<x>> \o rest : rest \in SeqProd(S, i + 1)} : x \in S[i]}
NoDup(S) == {d \in S : Len(d) = 2 => d[1] # d[2]}
DepsFor(role, alphabet) == CASE role = "const" -> {<<>>} [] role \in {"cc", "alg"} -> NoDup(DepSeqs(alphabet)) \ {<<>>} [] OTHER -> NoDup(DepSeqs(alphabet))
DepsForN(role, alphabet, maxDeps) == {d \in DepsFor(role, alphabet) : Len(d) <= maxDeps}
SystemsD(n, homes, zeroK, maxDeps) ==
    LET alphabet == {Names[j] : j \in 1..n} \cup {"t"} IN
    UNION {UNION {{sys \in {[classes |-> [i \in 1..n |-> Class(Names[i], r[i], 10 * i, IF zeroK /\ d[i] # <<>> THEN 0 ELSE i, d[i], h[i])], nla |-> NoneS, nlaDep |-> NoneS] :
                              h \in SeqProd([i \in 1..n |-> IF r[i] = "state" THEN {"A"} ELSE homes], 1)} : WellPosed(sys)} :
                  d \in SeqProd([i \in 1..n |-> DepsForN(r[i], alphabet, maxDeps)], 1)} :
           r \in [1..n -> {"const", "cc", "state", "alg"}]}
Systems(n, homes, zeroK) == SystemsD(n, homes, zeroK, 2)
\* systems coupled with the implicit equation u + u = 8 (+ nlaDep): classes may read u, the equation may read a state or t
ReadsU(sys) == \E i \in DOMAIN sys.classes : \E j \in DOMAIN sys.classes[i].deps : sys.classes[i].deps[j] \in {"u", "w"}
SystemsUK(n, homes, zeroK, kind) ==
    LET alphabet == {Names[j] : j \in 1..n} \cup {"t", "u"} \cup (IF kind = "pair" THEN {"w"} ELSE {}) IN
    UNION {UNION {UNION {{sys \in {[classes |-> [i \in 1..n |-> Class(Names[i], r[i], 10 * i, IF zeroK /\ d[i] # <<>> THEN 0 ELSE i, d[i], h[i])], nla |-> kind, nlaDep |-> nd] :
                                     h \in SeqProd([i \in 1..n |-> IF r[i] = "state" THEN {"A"} ELSE homes], 1)} :
                               WellPosed(sys) /\ (ReadsU(sys) \/ ~UConst(sys))} :
                         d \in SeqProd([i \in 1..n |-> DepsFor(r[i], alphabet)], 1)} :
                  nd \in {NoneS} \cup (IF kind # "pair" /\ \E i \in 1..n : r[i] = "state" THEN {"t"} \cup {Names[j] : j \in {k \in 1..n : r[k] = "state"}} ELSE {})} :
           r \in [1..n -> {"const", "cc", "state", "alg"}]}
SystemsU(n, homes, zeroK) == SystemsUK(n, homes, zeroK, "one") \cup SystemsUK(n, homes, zeroK, "guess") \cup SystemsUK(n, homes, zeroK, "pair")
\* systems with unknowns of implicit equations:  u + u = 2k ;  u + w = s, u - w = d  (optionally with an initial guess)
WithNla(sys, kind) == [sys EXCEPT !.nla = kind]
=============================================================================
