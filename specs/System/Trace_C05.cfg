SPECIFICATION Spec
CONSTANT Mode = "C05"
POSTCONDITION Accepted
CHECK_DEADLOCK FALSE
