SPECIFICATION Spec
CONSTANTS NClasses = 2
 Homes = {"A", "B"}
 Nla = {"none", "one"}
 ZeroK = FALSE
 MaxMarks = 1
 WithDeps = TRUE
 MaxDeps = 2
 OnlyFaulty = FALSE
INVARIANT Emit
CHECK_DEADLOCK FALSE
