SPECIFICATION Spec
CONSTANTS NClasses = 2
 Homes = {"A", "B"}
 Nla = {"none", "pair"}
 RunCode = TRUE
 ZeroK = FALSE
 WithU = FALSE
 DiffForms = FALSE
INVARIANT Emit
CHECK_DEADLOCK FALSE
