---------------------------- MODULE Trace_Flatten ----------------------------
EXTENDS Flatten, LoggerObs, KnownFindings
VARIABLE l
Init == l = 1
Problems(ev) ==
    (IF ev.resolved /\ ~ev.flatNull THEN {} ELSE {"a resolvable model is not flattened"})
    \cup (IF ev.flatNull THEN {} ELSE
           (IF ev.flatHasImports THEN {"the flat model still has imports"} ELSE {})
           \cup (IF ev.flatErrors = 0 THEN {} ELSE {"the flat model of valid sources is not valid"})
           \cup (IF FlatTop(ev) = ExpectedTop(ev.files) THEN {} ELSE {"the flat model does not mean what the import hierarchy means"})
           \cup (IF ev.flatParentless THEN {} ELSE {"harness: flat model content"}))
    \cup (IF ev.rootUnchanged /\ ev.libraryUnchanged THEN {} ELSE {"flattenModel modified the model passed in or a library model"})
    \cup (IF LogCoherent(ev.log) THEN {} ELSE {"incoherent issue list"})
\* Known deviations (KNOWN_FINDINGS.txt): each is one recorded world with exactly the recorded problems - anything else in that
\* world, or the same problem in another world, is still reported
NotValid == "the flat model of valid sources is not valid"
OtherMeaning == "the flat model does not mean what the import hierarchy means"
KnownWorlds == [FlatEquivChild |-> [world |-> "equivChild", problems |-> {NotValid, OtherMeaning}],
                FlatSiblingClash |-> [world |-> "siblingClash", problems |-> {NotValid}],
                FlatLocalKidClash |-> [world |-> "localKidClash", problems |-> {OtherMeaning}],
                FlatImportedChildUnitsClash |-> [world |-> "importedChildUnitsClash", problems |-> {NotValid, OtherMeaning}],
                FlatPassedOn |-> [world |-> "passedOn", problems |-> {OtherMeaning}],
                FlatCascade |-> [world |-> "cascade", problems |-> {OtherMeaning}]]
Dev(d, ev) == d \in DOMAIN KnownWorlds /\ ev.world = KnownWorlds[d].world /\ Problems(ev) = KnownWorlds[d].problems
Next == /\ l <= Len(TraceLog) /\ l' = l + 1
        /\ LET ev == TraceLog[l] IN
           IF ev.e = "Reset" THEN TRUE
           ELSE IF ev.e # "flatten" THEN Verdict("bad", l, ev.sc, <<ev.e>>)
           ELSE IF Problems(ev) = {} THEN TRUE
           ELSE IF \E d \in KnownDeviations : Dev(d, ev) THEN Verdict("known", l, ev.sc, CHOOSE d \in KnownDeviations : Dev(d, ev))
           ELSE Verdict("bad", l, ev.sc, <<Problems(ev), ev.world, ev.strict>>)
Spec == Init /\ [][Next]_l
Accepted == LET d == TLCGet("stats").diameter IN PrintT(<<"DEPTH", d>>) /\ d - 1 = Len(TraceLog)
=============================================================================
