------------------------------- MODULE Flatten -------------------------------
(* C06: what Importer::flattenModel must produce.  A world is a set of files;  *)
(* the meaning of the root model is the forest of component instances obtained *)
(* by following imports, each variable with its initial value, the reduction   *)
(* of its units to base units and scale (UnitsAlgebra) and its equivalent      *)
(* variables.  Component and units names may change on flattening (clashes);   *)
(* top-level component names, variable names, values, units meaning, hierarchy *)
(* and equivalences may not.                                                   *)
EXTENDS UnitsAlgebra, TraceIO
NoneS == "none"
UBase(n) == [name |-> n, kind |-> "base", ref |-> NoneS, prefix |-> NoneS, file |-> NoneS]
URef(n, r, p) == [name |-> n, kind |-> "ref", ref |-> r, prefix |-> p, file |-> NoneS]          \* one child: prefix p on units r (standard or local)
UImp(n, f, r) == [name |-> n, kind |-> "import", ref |-> r, prefix |-> NoneS, file |-> f]
\* a concrete component: variable "v" [units, init] and optionally "v2" [units2, "2"]; cn: units used only by a cn element; kids: encapsulated children
Comp(n, u, init, u2, cn, kids) == [name |-> n, kind |-> "leaf", units |-> u, init |-> init, units2 |-> u2, cn |-> cn, kids |-> kids, file |-> NoneS, ref |-> NoneS]
CImp(n, f, r) == [name |-> n, kind |-> "import", units |-> NoneS, init |-> NoneS, units2 |-> NoneS, cn |-> NoneS, kids |-> <<>>, file |-> f, ref |-> r]
\* an import placeholder that is, in the importing file, the parent of local components
CImpK(n, f, r, kids) == [name |-> n, kind |-> "import", units |-> NoneS, init |-> NoneS, units2 |-> NoneS, cn |-> NoneS, kids |-> kids, file |-> f, ref |-> r]
BagAdd(a, b) == [x \in DOMAIN a \cup DOMAIN b |-> (IF x \in DOMAIN a THEN a[x] ELSE 0) + (IF x \in DOMAIN b THEN b[x] ELSE 0)]
Conn(c1, v1, c2, v2) == [c1 |-> c1, v1 |-> v1, c2 |-> c2, v2 |-> v2]
File(us, cs, conns) == [status |-> "ok", units |-> us, comps |-> cs, conns |-> conns]
Has(seq, n) == \E i \in DOMAIN seq : seq[i].name = n
Get(seq, n) == seq[CHOOSE i \in DOMAIN seq : seq[i].name = n]
BagOf(seq) == [x \in {seq[i] : i \in DOMAIN seq} |-> Cardinality({i \in DOMAIN seq : seq[i] = x})]

\* ---------------------------------------------------------------- meaning of units
RECURSIVE USig(_, _, _, _)
USig(w, f, u, depth) ==
    IF u = NoneS \/ u = "dimensionless" THEN [base |-> Zero, log |-> 0]
    ELSE IF Has(w[f].units, u) THEN
        LET d == Get(w[f].units, u) IN
        CASE d.kind = "base" -> [base |-> Vec({<<u, 1>>}), log |-> 0]
          [] d.kind = "import" -> USig(w, d.file, d.ref, depth - 1)
          [] d.kind = "ref" -> LET r == USig(w, f, d.ref, depth - 1) IN [base |-> r.base, log |-> r.log + PrefixVal(d.prefix)]
    ELSE IF u \in StdNames THEN [base |-> Std(u)[2], log |-> Std(u)[3]]
    ELSE [base |-> Zero, log |-> 999]

\* ---------------------------------------------------------------- meaning of component instances
ConcreteOf(w, f, c) ==         \* follow imports to the defining file and definition
    LET RECURSIVE Go(_, _, _)
        Go(ff, cc, n) == LET d == Get(w[ff].comps, cc) IN IF d.kind = "import" /\ n > 0 THEN Go(d.file, d.ref, n - 1) ELSE <<ff, d>>
    IN Go(f, c, 5)
VarInit(d, v) == IF v = "v" THEN d.init ELSE "2"
VarUnits(d, v) == IF v = "v" THEN d.units ELSE d.units2
\* partners of variable (c, v) through the connections written in file f
Partners(w, f, c, v) ==
    LET cs == w[f].conns
        ends == {<<cs[i].c2, cs[i].v2>> : i \in {k \in DOMAIN cs : cs[k].c1 = c /\ cs[k].v1 = v}} \cup {<<cs[i].c1, cs[i].v1>> : i \in {k \in DOMAIN cs : cs[k].c2 = c /\ cs[k].v2 = v}}
    IN {[name |-> e[2], init |-> VarInit(ConcreteOf(w, f, e[1])[2], e[2])] : e \in ends}
RECURSIVE CSig(_, _, _, _, _)
\* signature of the instance of component c of file f; outer = partners contributed by the importing files
CSig(w, f, c, outer, depth) ==
    LET d == Get(w[f].comps, c)
        mine == [v \in {"v", "v2"} |-> outer[v] \cup Partners(w, f, c, v)]
    IN IF d.kind = "import"
       THEN LET s == CSig(w, d.file, d.ref, mine, depth - 1) IN     \* the instance keeps the placeholder's local children next to the imported ones
            [vars |-> s.vars, kids |-> BagAdd(s.kids, BagOf([k \in DOMAIN d.kids |-> CSig(w, f, d.kids[k], [v \in {"v", "v2"} |-> {}], depth - 1)]))]
       ELSE [vars |-> {[name |-> v, units |-> USig(w, f, VarUnits(d, v), 6), init |-> VarInit(d, v), eq |-> mine[v]] : v \in (IF d.units2 = NoneS THEN {"v"} ELSE {"v", "v2"})},
             kids |-> BagOf([k \in DOMAIN d.kids |-> CSig(w, f, d.kids[k], [v \in {"v", "v2"} |-> {}], depth - 1)])]
ChildNames(f) == UNION {{f.comps[i].kids[k] : k \in DOMAIN f.comps[i].kids} : i \in DOMAIN f.comps}
ExpectedTop(w) == {[name |-> w["root"].comps[i].name, sig |-> CSig(w, "root", w["root"].comps[i].name, [v \in {"v", "v2"} |-> {}], 6)] :
                      i \in {k \in DOMAIN w["root"].comps : w["root"].comps[k].name \notin ChildNames(w["root"])}}

\* ---------------------------------------------------------------- the flat model as the executor logged it
\* ev.ufam: UnitsAlgebra family of the flat model's units; ev.comps: [name, parent, vars: [name, units, init, eq: [[name, init]]]]
FlatUSig(ufam, u) == IF u = NoneS THEN [base |-> Zero, log |-> 0] ELSE LET r == R(ufam, u) IN IF r.ok THEN [base |-> r.base, log |-> r.log] ELSE [base |-> Zero, log |-> 999]
RECURSIVE FSig(_, _, _)
FSig(ev, i, depth) ==
    LET c == ev.comps[i] IN
    [vars |-> {[name |-> c.vars[k].name, units |-> FlatUSig(ev.ufam, c.vars[k].units), init |-> c.vars[k].init,
                eq |-> {[name |-> c.vars[k].eq[j][1], init |-> c.vars[k].eq[j][2]] : j \in DOMAIN c.vars[k].eq}] : k \in DOMAIN c.vars},
     kids |-> LET ks == SelectSeq([j \in DOMAIN ev.comps |-> j], LAMBDA j : ev.comps[j].parent = c.name) IN
              IF depth = 0 THEN <<>> ELSE BagOf([j \in DOMAIN ks |-> FSig(ev, ks[j], depth - 1)])]
FlatTop(ev) == {[name |-> ev.comps[i].name, sig |-> FSig(ev, i, 6)] : i \in {k \in DOMAIN ev.comps : ev.comps[k].parent = NoneS}}

\* ---------------------------------------------------------------- worlds (all resolvable and valid)
MainUses(u) == Comp("main", u, "5", NoneS, NoneS, <<>>)
Worlds ==
    [single |-> [root |-> File(<<>>, <<CImp("ic", "f1", "c"), MainUses("second")>>, <<Conn("main", "v", "ic", "v")>>),
                 f1 |-> File(<<URef("ms", "second", "milli")>>, <<Comp("c", "ms", "11", NoneS, NoneS, <<>>)>>, <<>>)],
     chain |-> [root |-> File(<<>>, <<CImp("ic", "f1", "c")>>, <<>>), f1 |-> File(<<>>, <<CImp("c", "f2", "d")>>, <<>>),
                f2 |-> File(<<UBase("ub")>>, <<Comp("d", "ub", "22", "second", NoneS, <<>>)>>, <<>>)],
     kids |-> [root |-> File(<<>>, <<CImp("ic", "f1", "c"), MainUses("volt")>>, <<Conn("main", "v", "ic", "v")>>),
               f1 |-> File(<<URef("mV", "volt", "milli")>>, <<Comp("c", "mV", "11", NoneS, NoneS, <<"k">>), Comp("k", "mV", "12", NoneS, NoneS, <<"g">>), Comp("g", NoneS, "13", "mV", NoneS, <<>>)>>,
                           <<Conn("c", "v", "k", "v"), Conn("k", "v", "g", "v2")>>)],
     \* the importing model defines units with the same name but another meaning; the deep descendant still means the library's
     unitsClash |-> [root |-> File(<<URef("mV", "volt", "micro")>>, <<CImp("ic", "f1", "c"), MainUses("mV")>>, <<Conn("main", "v", "ic", "v")>>),
                     f1 |-> File(<<URef("mV", "volt", "milli")>>, <<Comp("c", "mV", "11", NoneS, NoneS, <<"k">>), Comp("k", "volt", "12", NoneS, NoneS, <<"g">>), Comp("g", "mV", "13", NoneS, NoneS, <<>>)>>,
                                 <<Conn("c", "v", "k", "v"), Conn("k", "v", "g", "v")>>)],
     compClash |-> [root |-> File(<<>>, <<CImp("ic", "f1", "c"), Comp("k", NoneS, "5", NoneS, NoneS, <<>>)>>, <<>>),
                    f1 |-> File(<<>>, <<Comp("c", "second", "11", NoneS, NoneS, <<"k">>), Comp("k", "second", "12", NoneS, NoneS, <<>>)>>, <<Conn("c", "v", "k", "v")>>)],
     twice |-> [root |-> File(<<>>, <<CImp("i1", "f1", "c"), CImp("i2", "f1", "c"), MainUses("second")>>, <<Conn("main", "v", "i2", "v")>>),
                f1 |-> File(<<URef("ms", "second", "milli")>>, <<Comp("c", "ms", "11", NoneS, NoneS, <<"k">>), Comp("k", "ms", "12", NoneS, NoneS, <<>>)>>, <<Conn("c", "v", "k", "v")>>)],
     diamond |-> [root |-> File(<<>>, <<CImp("i1", "f1", "c"), CImp("i2", "f2", "c")>>, <<>>), f1 |-> File(<<>>, <<CImp("c", "f3", "e")>>, <<>>),
                  f2 |-> File(<<>>, <<CImp("c", "f3", "e")>>, <<>>), f3 |-> File(<<URef("kub", "ub", "kilo"), UBase("ub")>>, <<Comp("e", "kub", "33", NoneS, NoneS, <<>>)>>, <<>>)],
     importedUnits |-> [root |-> File(<<UImp("iu", "f1", "u")>>, <<MainUses("iu")>>, <<>>), f1 |-> File(<<UImp("u", "f2", "w")>>, <<>>, <<>>),
                        f2 |-> File(<<URef("w", "x", "kilo"), URef("x", "second", "milli")>>, <<>>, <<>>)],
     unitsTwice |-> [root |-> File(<<UImp("a", "f1", "u"), UImp("b", "f1", "u")>>, <<Comp("main", "a", "5", "b", NoneS, <<>>)>>, <<>>),
                     f1 |-> File(<<URef("u", "metre", "kilo")>>, <<>>, <<>>)],
     cnOnly |-> [root |-> File(<<>>, <<CImp("ic", "f1", "c")>>, <<>>),
                 f1 |-> File(<<URef("onlycn", "second", "micro"), URef("ms", "second", "milli")>>, <<Comp("c", "ms", "11", NoneS, "onlycn", <<>>)>>, <<>>)],
     \* two <math> elements in the imported component (and in its child): the units of the first one are named nowhere else
     cnTwoBlocks |-> [root |-> File(<<>>, <<CImp("ic", "f1", "c")>>, <<>>),
                      f1 |-> File(<<URef("onlycn", "second", "micro"), URef("ms", "second", "milli"), URef("kcn", "gram", "kilo")>>,
                                  <<Comp("c", "ms", "11", NoneS, "onlycn|ms", <<"k">>), Comp("k", "second", "12", NoneS, "kcn|second|ms", <<>>)>>, <<Conn("c", "v", "k", "v")>>)],
     \* the import placeholder is the encapsulation parent of three local components
     localKids |-> [root |-> File(<<URef("ms", "second", "milli")>>, <<CImpK("ic", "f1", "c", <<"a", "b", "d">>), Comp("a", "second", "1", NoneS, NoneS, <<>>), Comp("b", "ms", "2", NoneS, NoneS, <<>>),
                                                                      Comp("d", "second", "3", NoneS, NoneS, <<>>)>>, <<Conn("ic", "v", "a", "v"), Conn("ic", "v", "d", "v")>>),
                    f1 |-> File(<<>>, <<Comp("c", "second", "11", NoneS, NoneS, <<"k">>), Comp("k", "second", "12", NoneS, NoneS, <<>>)>>, <<Conn("c", "v", "k", "v")>>)],
     compNeedsImportedUnits |-> [root |-> File(<<>>, <<CImp("ic", "f1", "c")>>, <<>>), f1 |-> File(<<UImp("uu", "f2", "v")>>, <<Comp("c", "uu", "11", NoneS, NoneS, <<>>)>>, <<>>),
                                 f2 |-> File(<<URef("v", "gram", "milli")>>, <<>>, <<>>)],
     \* the imported component is a pure container: only its encapsulated child needs the units of the library
     container |-> [root |-> File(<<>>, <<CImp("ic", "f1", "c")>>, <<>>),
                    f1 |-> File(<<URef("mV", "volt", "milli")>>, <<Comp("c", NoneS, "11", NoneS, NoneS, <<"k">>), Comp("k", "mV", "12", NoneS, NoneS, <<>>)>>, <<>>)],
     \* three files, three meanings of the units name cm: the encapsulated import keeps the meaning of the file it comes from
     importedChildClash |-> [root |-> File(<<URef("cm", "metre", "milli")>>, <<CImp("ic", "f1", "c"), MainUses("cm")>>, <<>>),
                             f1 |-> File(<<URef("cm", "metre", "centi")>>, <<Comp("c", "cm", "11", NoneS, NoneS, <<"k">>), CImp("k", "f2", "d")>>, <<Conn("c", "v", "k", "v")>>),
                             f2 |-> File(<<URef("cm", "metre", "kilo")>>, <<Comp("d", "cm", "22", NoneS, NoneS, <<>>)>>, <<>>)],
     \* imported units that depend on library units over two levels; the deepest one shares its name with other units of the importer
     deepUnitsClash |-> [root |-> File(<<URef("C", "volt", "milli"), UImp("iu", "f1", "rate")>>, <<Comp("main", "iu", "5", "C", NoneS, <<>>)>>, <<>>),
                         f1 |-> File(<<URef("rate", "B", "kilo"), URef("B", "C", "micro"), URef("C", "second", "milli")>>, <<>>, <<>>)],
     \* ... and the same through an imported component (the diamond: two libraries, each with its own C)
     deepUnitsClash2 |-> [root |-> File(<<>>, <<CImp("i1", "f1", "c"), CImp("i2", "f2", "c")>>, <<>>),
                          f1 |-> File(<<URef("rate", "B", "kilo"), URef("B", "C", "micro"), URef("C", "second", "milli")>>, <<Comp("c", "rate", "11", NoneS, NoneS, <<>>)>>, <<>>),
                          f2 |-> File(<<URef("g", "D", "kilo"), URef("D", "C", "micro"), URef("C", "volt", "milli")>>, <<Comp("c", "g", "12", NoneS, NoneS, <<>>)>>, <<>>)],
     \* round 4 (situations reported by a sub-agent on the unchanged tree)
     \* imported units over library units that are equivalent to differently named units of the importer
     equivChild |-> [root |-> File(<<URef("ms", "second", "milli"), UImp("iu", "f1", "rate")>>, <<Comp("main", "iu", "5", "ms", NoneS, <<>>)>>, <<>>),
                     f1 |-> File(<<URef("rate", "msec", "kilo"), URef("msec", "second", "milli")>>, <<>>, <<>>)],
     \* the de-clashed name of an imported child collides with a sibling of that child
     siblingClash |-> [root |-> File(<<>>, <<CImp("ic", "f1", "top"), Comp("c", NoneS, "5", NoneS, NoneS, <<>>)>>, <<>>),
                       f1 |-> File(<<>>, <<Comp("top", "second", "11", NoneS, NoneS, <<"c", "c_1">>), Comp("c", "second", "12", NoneS, NoneS, <<>>), Comp("c_1", "second", "13", NoneS, NoneS, <<>>)>>, <<>>)],
     \* clashing units named only by a cn of a grandchild of the imported component
     cnGrandchildClash |-> [root |-> File(<<URef("u", "volt", "milli")>>, <<CImp("ic", "f1", "c"), MainUses("u")>>, <<>>),
                            f1 |-> File(<<URef("u", "second", "milli")>>, <<Comp("c", "second", "11", NoneS, NoneS, <<"k">>), Comp("k", "second", "12", NoneS, NoneS, <<"g">>), Comp("g", "second", "13", NoneS, "u", <<>>)>>, <<>>)],
     \* a local child of the import placeholder uses the importer's u, the library has another u
     localKidClash |-> [root |-> File(<<URef("u", "volt", "milli")>>, <<CImpK("ic", "f1", "c", <<"loc">>), Comp("loc", "u", "1", NoneS, NoneS, <<>>)>>, <<>>),
                        f1 |-> File(<<URef("u", "second", "milli")>>, <<Comp("c", "u", "11", NoneS, NoneS, <<>>)>>, <<>>)],
     \* imported units whose child units are imported by the library under a name the importer uses for other units
     importedChildUnitsClash |-> [root |-> File(<<URef("base", "volt", "milli"), UImp("iu", "f1", "rate")>>, <<Comp("main", "iu", "5", "base", NoneS, <<>>)>>, <<>>),
                                  f1 |-> File(<<URef("rate", "base", "kilo"), UImp("base", "f2", "b")>>, <<>>, <<>>), f2 |-> File(<<URef("b", "second", "milli")>>, <<>>, <<>>)],
     \* a chain of component imports whose middle file only passes the component on; the importer connects a local variable to it
     passedOn |-> [root |-> File(<<>>, <<CImp("i", "f1", "mid"), MainUses("second")>>, <<Conn("main", "v", "i", "v")>>),
                   f1 |-> File(<<>>, <<CImp("mid", "f2", "src")>>, <<>>), f2 |-> File(<<>>, <<Comp("src", "second", "11", NoneS, NoneS, <<>>)>>, <<>>)],
     \* cascading renaming: the library has u and u_1, the importer another u
     cascade |-> [root |-> File(<<URef("u", "volt", "milli")>>, <<CImp("ic", "f1", "c"), MainUses("u")>>, <<>>),
                  f1 |-> File(<<URef("u", "second", "milli"), URef("u_1", "volt", "micro")>>, <<Comp("c", "u", "11", "u_1", NoneS, <<>>)>>, <<>>)],
     importedChild |-> [root |-> File(<<>>, <<CImp("ic", "f1", "c")>>, <<>>), f1 |-> File(<<>>, <<Comp("c", "metre", "11", NoneS, NoneS, <<"k">>), CImp("k", "f2", "d")>>, <<Conn("c", "v", "k", "v")>>),
                        f2 |-> File(<<URef("cm", "metre", "centi")>>, <<Comp("d", "cm", "22", NoneS, NoneS, <<>>)>>, <<>>)]]
=============================================================================
