----------------------------- MODULE Gen_Flatten -----------------------------
EXTENDS Flatten
VARIABLE sc
Init == sc \in {[world |-> wn, strict |-> s] : wn \in DOMAIN Worlds, s \in BOOLEAN}
Next == UNCHANGED sc
Spec == Init /\ [][Next]_sc
WellFormed == \A t \in ExpectedTop(Worlds[sc.world]) : t.sig.vars # {}
Emit == EmitScenario([world |-> sc.world, strict |-> sc.strict, files |-> Worlds[sc.world]])
=============================================================================
