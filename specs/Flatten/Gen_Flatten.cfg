SPECIFICATION Spec
INVARIANTS WellFormed Emit
CHECK_DEADLOCK FALSE
