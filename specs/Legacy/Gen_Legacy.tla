----------------------------- MODULE Gen_Legacy -----------------------------
EXTENDS Legacy
CONSTANT Depth
VARIABLE sc
FVs == {f \in Singles \cup Vary2("ids", "imports") \cup Vary2("depth", "pairs") \cup Vary3("site", "cls", "ids") : Sensible(f) /\ f.site \notin {"resetId", "tvId"}}
VRs == IF Depth = "quick" THEN VSingles \cup VVary2("version", "mathStyle") \cup VVary2("mathStyle", "mathPos") \cup VVary2("version", "unitsPlace") \cup VVary2("spell", "unitsPlace") ELSE VAll
Init == sc \in {[fv |-> f, vr |-> v] : f \in (IF Depth = "quick" THEN {g \in FVs : g.cls \in {"plain", "AMP", "EACUTE"}} ELSE FVs), v \in VRs}
Next == UNCHANGED sc
Spec == Init /\ [][Next]_sc
Emit == Applicable(sc.fv, sc.vr) => EmitScenario([fv |-> sc.fv, vr |-> sc.vr, am |-> ModelOf(sc.fv)])
=============================================================================
