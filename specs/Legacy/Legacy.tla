------------------------------- MODULE Legacy -------------------------------
(* C14: CellML 1.0 / 1.1 documents obtained by rewriting an abstract 2.0      *)
(* model mechanically (syntax variants vr) are transformed by the permissive  *)
(* parser into the 2.0 model with the same content; the strict parser refuses. *)
EXTENDS CellMLAbstract, TraceIO
Versions == {"1.0", "1.1"}
VR0 == [version |-> "1.1", spell |-> "si", mathStyle |-> "rootPrefix", mathPos |-> "last", ifaceStyle |-> "minimal", unitsPlace |-> "model"]
VDims == [version |-> Versions, spell |-> {"si", "us"}, mathStyle |-> {"rootPrefix", "mathPrefix"}, mathPos |-> {"last", "first"},
          ifaceStyle |-> {"minimal", "explicitNone", "privFirst"}, unitsPlace |-> {"model", "component"}]
VNames == DOMAIN VDims
VVary1(d) == {[VR0 EXCEPT ![d] = v] : v \in VDims[d]}
VVary2(d1, d2) == UNION {{[f EXCEPT ![d2] = v] : v \in VDims[d2]} : f \in VVary1(d1)}
VSingles == UNION {VVary1(d) : d \in VNames}
VPairs == UNION {VVary2(d1, d2) : d1, d2 \in VNames}
VAll == {v \in [VNames -> UNION {VDims[d] : d \in VNames}] : \A d \in VNames : v[d] \in VDims[d]}

\* what the rewritten document means as a 2.0 model: the abstract model, plus the units declared inside component d1
\* (hoisted to the model) and the variable using them, when the variant writes component-level units
UcUnits == [name |-> "uc", id |-> NoneS, imp |-> NoneS, impId |-> NoneS, ref |-> NoneS, kids |-> <<Unit("litre", "micro", "1", "1", NoneS)>>]
WVar == Var("w", NoneS, "uc", NoneS, NoneS)
\* ... and an equation of that component whose number names a standard unit (written "liter" in the US spelling of the 1.x document)
WMath(fv) == EqMath([fv EXCEPT !.mathNs = "bare"], "w", Cn("1", "litre"))
Expected(fv, vr) ==
    \* math is compared up to (unused) namespace prefix declarations; an id on the 1.x <group> element is not written
    \* (whether it should become the encapsulation id is not promised)
    LET m == [ModelOf([fv EXCEPT !.mathNs = "bare"]) EXCEPT !.encId = NoneS] IN
    IF vr.unitsPlace = "component"
    THEN [m EXCEPT !.units = Append(@, UcUnits),
                   !.comps = [i \in DOMAIN @ |-> IF @[i].name = "d1" THEN [@[i] EXCEPT !.vars = Append(@, WVar), !.math = WMath(fv)] ELSE @[i]]]
    ELSE m
\* 1.0 has no imports, 1.x has no resets
Applicable(fv, vr) == fv.reset = "none" /\ ~fv.twin /\ (vr.version = "1.0" => fv.imports = "none")
=============================================================================
