SPECIFICATION Spec
CONSTANT Depth = "thorough"
INVARIANT Emit
CHECK_DEADLOCK FALSE
