SPECIFICATION Spec
CONSTANT Depth = "quick"
INVARIANT Emit
CHECK_DEADLOCK FALSE
