---------------------------- MODULE Trace_Legacy ----------------------------
EXTENDS Legacy, LoggerObs, KnownFindings
VARIABLE l
Init == l = 1
Problems(ev) ==
    (IF ev.strictErrors > 0 THEN {} ELSE {"strict parser does not refuse the 1.x document with an error"})
    \cup (IF ev.permErrors = 0 /\ ev.permWarnings = 0 THEN {} ELSE {"permissive parser reports something stronger than a message"})
    \cup (IF "null" \in DOMAIN ev.content THEN {"permissive parser returned no model"}
          ELSE IF SameContent(ev.content, Expected(ev.fv, ev.vr)) THEN {} ELSE {"transformed model differs from the 2.0 original"})
    \cup (IF ev.nsMoved THEN {} ELSE {"cellml:units left in the 1.x namespace"})
    \cup (IF LogCoherent(ev.slog) /\ LogCoherent(ev.plog) THEN {} ELSE {"incoherent issue list"})
Dev(d, ev) == FALSE
Next == /\ l <= Len(TraceLog) /\ l' = l + 1
        /\ LET ev == TraceLog[l] IN
           IF ev.e = "Reset" THEN TRUE
           ELSE IF ev.e # "legacy" THEN Verdict("bad", l, ev.sc, ev.e)
           ELSE IF Problems(ev) = {} THEN TRUE
           ELSE IF \E d \in KnownDeviations : Dev(d, ev) THEN Verdict("known", l, ev.sc, CHOOSE d \in KnownDeviations : Dev(d, ev))
           ELSE Verdict("bad", l, ev.sc, <<Problems(ev), ev.vr, ev.fv>>)
Spec == Init /\ [][Next]_l
Accepted == LET d == TLCGet("stats").diameter IN PrintT(<<"DEPTH", d>>) /\ d - 1 = Len(TraceLog)
=============================================================================
