------------------------------- MODULE Logger -------------------------------
(* C15: the logger as the code designs it (logger.cpp): the issue vector and   *)
(* three per-level vectors of positions into it, maintained separately.        *)
(* Positions are 0-based as in the code.  Operators are pure functions on a    *)
(* logger record so that the trace specs can keep one record per instance.     *)
EXTENDS Naturals, Sequences
Levels == {"E", "W", "M"}
Empty == [issues |-> <<>>, errs |-> <<>>, warns |-> <<>>, msgs |-> <<>>]
RmAt0(s, i) == SubSeq(s, 1, i) \o SubSeq(s, i + 2, Len(s))            \* erase(begin + i)
Add(g, lv) ==
    LET pos == Len(g.issues) IN
    [issues |-> Append(g.issues, lv),
     errs |-> IF lv = "E" THEN Append(g.errs, pos) ELSE g.errs,
     warns |-> IF lv = "W" THEN Append(g.warns, pos) ELSE g.warns,
     msgs |-> IF lv = "M" THEN Append(g.msgs, pos) ELSE g.msgs]
CanRemoveError(g, i) == i < Len(g.errs) /\ g.errs[i + 1] < Len(g.issues)
\* exactly what LoggerImpl::removeError does: no renumbering of any position vector
RemoveError(g, i) == [g EXCEPT !.issues = RmAt0(g.issues, g.errs[i + 1]), !.errs = RmAt0(g.errs, i)]
PositionsOf(levels, lv) == SelectSeq([k \in 1..Len(levels) |-> k - 1], LAMBDA p : levels[p + 1] = lv)
Coherent(g) == /\ g.errs = PositionsOf(g.issues, "E")
               /\ g.warns = PositionsOf(g.issues, "W")
               /\ g.msgs = PositionsOf(g.issues, "M")
\* the precondition under which removeError keeps the logger coherent: the removed error is the last issue
SafeRemove(g, i) == CanRemoveError(g, i) /\ g.errs[i + 1] = Len(g.issues) - 1
=============================================================================
