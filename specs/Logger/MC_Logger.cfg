SPECIFICATION Spec
CONSTANT MaxIssues = 6
INVARIANTS CoherentInv NoHazard
CHECK_DEADLOCK FALSE
