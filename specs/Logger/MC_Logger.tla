------------------------------ MODULE MC_Logger ------------------------------
(* Model checking of the logger design.  SpecSafe: removeError only under      *)
(* SafeRemove - Coherent is an invariant.  ImporterEnv: the importer's usage    *)
(* pattern (fetchModel appends an optional message and then errors; the caller  *)
(* deletes the errors appended since startIndex, last to first) interleaved     *)
(* with ordinary logging - every removeError it performs satisfies SafeRemove.  *)
EXTENDS Logger, TLC
CONSTANT MaxIssues
VARIABLES g, phase, start, hazard
vars == <<g, phase, start, hazard>>
Init == g = Empty /\ phase = "idle" /\ start = 0 /\ hazard = FALSE
AddAny == phase = "idle" /\ Len(g.issues) < MaxIssues /\ \E lv \in Levels : g' = Add(g, lv) /\ UNCHANGED <<phase, start, hazard>>
RemoveAll == phase = "idle" /\ g' = Empty /\ UNCHANGED <<phase, start, hazard>>
\* importer pattern
BeginFetch == phase = "idle" /\ phase' = "fetchMsg" /\ start' = Len(g.errs) /\ UNCHANGED <<g, hazard>>
FetchMsg == phase = "fetchMsg" /\ phase' = "fetchErr"
            /\ (g' = g \/ (Len(g.issues) < MaxIssues /\ g' = Add(g, "M"))) /\ UNCHANGED <<start, hazard>>
FetchErr == phase = "fetchErr" /\ \/ (Len(g.issues) < MaxIssues /\ g' = Add(g, "E") /\ UNCHANGED <<phase, start, hazard>>)
                                  \/ (phase' = "clean" /\ UNCHANGED <<g, start, hazard>>)
Clean == phase = "clean" /\
         IF Len(g.errs) > start
         THEN /\ hazard' = (hazard \/ ~SafeRemove(g, Len(g.errs) - 1))
              /\ g' = RemoveError(g, Len(g.errs) - 1) /\ UNCHANGED <<phase, start>>
         ELSE phase' = "idle" /\ UNCHANGED <<g, start, hazard>>
Next == AddAny \/ RemoveAll \/ BeginFetch \/ FetchMsg \/ FetchErr \/ Clean
Spec == Init /\ [][Next]_vars
CoherentInv == Coherent(g)
NoHazard == ~hazard
=============================================================================
