#!/bin/sh
# usage: ./build.sh name   (compiles name.cpp -> name)
g++ -std=c++17 -I/tmp/mut/C06d/demo -I/tmp/mut/C06d/src/api -I/tmp/mut/C06d/src/api/libcellml/module -I/tmp/mut/C06d/_build/src/api /tmp/mut/C06d/demo/$1.cpp -L/tmp/mut/C06d/_build/src -lcellmld -Wl,-rpath,/tmp/mut/C06d/_build/src -o /tmp/mut/C06d/demo/$1
