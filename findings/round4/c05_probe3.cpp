#include "dump.h"
int main()
{
    libcellml::AnalyserPtr an;
    std::string ode = eq(diff("x", "t"), ap("times", ci("x"), ci("t")));
    std::cout << "== D1: dx/dt = x*t twice\n";
    analyse(HDR + "<component name=\"c\">" + var("t") + var("x", "1") + MB + ode + ode + ME + "</component></model>", an);
    std::cout << "== D2: dx/dt = x*t ; a = x + t twice\n";
    std::string ea = eq(ci("a"), ap("plus", ci("x"), ci("t")));
    analyse(HDR + "<component name=\"c\">" + var("t") + var("x", "1") + var("a") + MB + ode + ea + ea + ME + "</component></model>", an);
    std::cout << "== P9: dx/dt = 1 [x not initialised]; y = x twice\n";
    std::string ey = eq(ci("y"), ci("x"));
    analyse(HDR + "<component name=\"c\">" + var("t") + var("x") + var("y") + MB + eq(diff("x", "t"), cn("1")) + ey + ey + ME + "</component></model>", an);
    std::cout << "== P7: comment before <diff/>\n";
    analyse(HDR + "<component name=\"c\">" + var("t") + var("x", "1") + MB + eq("<apply><!-- rate --><diff/><bvar>" + ci("t") + "</bvar>" + ci("x") + "</apply>", cn("1")) + ME + "</component></model>", an);
    std::cout << "== P12: x + y = 3 only, x and y initialised\n";
    analyse(HDR + "<component name=\"c\">" + var("x", "1") + var("y", "1") + MB + eq(ap("plus", ci("x"), ci("y")), cn("3")) + ME + "</component></model>", an);
    return 0;
}
