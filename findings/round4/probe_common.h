// Shared helper for the probe programs: analyse a CellML string and print the compute methods of the generated code.
#include <libcellml>
#include <iostream>
#include <string>
static int probe(const std::string &cellml, bool python = false)
{
    auto parser = libcellml::Parser::create();
    auto model = parser->parseModel(cellml);
    auto validator = libcellml::Validator::create();
    validator->validateModel(model);
    for (size_t i = 0; i < validator->errorCount(); ++i) std::cout << "validator error: " << validator->error(i)->description() << "\n";
    auto analyser = libcellml::Analyser::create();
    analyser->analyseModel(model);
    for (size_t i = 0; i < analyser->errorCount(); ++i) std::cout << "analyser error: " << analyser->error(i)->description() << "\n";
    std::cout << "validator errors: " << validator->errorCount() << ", analyser errors: " << analyser->errorCount()
              << ", model type: " << libcellml::AnalyserModel::typeAsString(analyser->model()->type()) << "\n";
    auto generator = libcellml::Generator::create();
    generator->setModel(analyser->model());
    if (python) generator->setProfile(libcellml::GeneratorProfile::create(libcellml::GeneratorProfile::Profile::PYTHON));
    auto code = generator->implementationCode();
    auto pos = code.find(python ? "def initialise_variables" : "void initialiseVariables");
    std::cout << ((pos == std::string::npos) ? code : code.substr(pos)) << std::endl;
    return 0;
}
#define HDR "<?xml version='1.0' encoding='UTF-8'?>\n<model name=\"m\" xmlns=\"http://www.cellml.org/cellml/2.0#\" xmlns:cellml=\"http://www.cellml.org/cellml/2.0#\">\n"
#define MATH "<math xmlns=\"http://www.w3.org/1998/Math/MathML\">"
