// dx/dt = dy/dt + z, z = 2*dy/dt, dy/dt = 3*y: a rate read by another equation is not a dependency, so rates[1] is read
// before it is assigned in computeRates() (uninitialised on the first call); z is not recomputed in computeVariables() either.
#include "probe_common.h"
int main()
{
    probe(std::string(HDR) + R"CELLML(  <units name="per_s"><unit units="second" exponent="-1"/></units>
  <component name="c">
    <variable name="t" units="second"/>
    <variable name="x" units="dimensionless" initial_value="1"/>
    <variable name="y" units="dimensionless" initial_value="2"/>
    <variable name="z" units="per_s"/>
    <math xmlns="http://www.w3.org/1998/Math/MathML">
      <apply><eq/><apply><diff/><bvar><ci>t</ci></bvar><ci>x</ci></apply>
         <apply><plus/><apply><diff/><bvar><ci>t</ci></bvar><ci>y</ci></apply><ci>z</ci></apply></apply>
      <apply><eq/><ci>z</ci>
         <apply><times/><cn cellml:units="dimensionless">2</cn><apply><diff/><bvar><ci>t</ci></bvar><ci>y</ci></apply></apply></apply>
      <apply><eq/><apply><diff/><bvar><ci>t</ci></bvar><ci>y</ci></apply>
         <apply><times/><cn cellml:units="per_s">3</cn><ci>y</ci></apply></apply>
    </math>
  </component>
</model>
)CELLML");
    return 0;
}
