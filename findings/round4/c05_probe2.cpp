#include "dump.h"
static std::string conn(const std::string &c1, const std::string &c2, const std::string &v1, const std::string &v2)
{
    return "<connection component_1=\"" + c1 + "\" component_2=\"" + c2 + "\"><map_variables variable_1=\"" + v1 + "\" variable_2=\"" + v2 + "\"/></connection>\n";
}
int main(int argc, char **argv)
{
    libcellml::AnalyserPtr an;
    std::string fw = eq(ap("plus", ap("times", ci("w"), ci("w")), ci("y")), cn("5"));
    for (int diffNames = 0; diffNames < 2; ++diffNames) {
        std::string ya = diffNames ? "y_a" : "y";
        std::string fwa = eq(ap("plus", ap("times", ci("w"), ci("w")), ci(ya)), cn("5"));
        std::cout << "== P13 names " << (diffNames ? "different" : "same") << ", A (implicit, reads y) before B (y = 3)\n";
        analyse(HDR + "<component name=\"A\">" + var("w", "1") + var(ya, "", "public") + MB + fwa + ME + "</component>"
                + "<component name=\"B\">" + var("y", "", "public") + MB + eq(ci("y"), cn("3")) + ME + "</component>"
                + conn("A", "B", ya, "y") + "</model>", an);
        std::cout << "== P13 names " << (diffNames ? "different" : "same") << ", B before A\n";
        analyse(HDR + "<component name=\"B\">" + var("y", "", "public") + MB + eq(ci("y"), cn("3")) + ME + "</component>"
                + "<component name=\"A\">" + var("w", "1") + var(ya, "", "public") + MB + fwa + ME + "</component>"
                + conn("A", "B", ya, "y") + "</model>", an);
    }
    // P14: order dependence in one component
    std::string En = eq(ap("plus", ap("times", ci("w"), ci("w")), ci("y")), cn("5"));
    std::string Ey = eq(ci("y"), ap("plus", ci("u"), cn("1")));
    std::string Eu = eq(ap("times", ci("u"), ci("u")), cn("4"));
    std::cout << "== P14 order En, Ey, Eu\n";
    analyse(HDR + "<component name=\"c\">" + var("w", "1") + var("y") + var("u") + MB + En + Ey + Eu + ME + "</component></model>", an);
    std::cout << "== P14 order Eu, Ey, En\n";
    analyse(HDR + "<component name=\"c\">" + var("w", "1") + var("y") + var("u") + MB + Eu + Ey + En + ME + "</component></model>", an);
    return 0;
}
