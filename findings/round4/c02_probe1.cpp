// probe1: a tab / newline / carriage return inside an attribute value is XML character data, but the printer writes
// it literally, so the XML attribute-value normalisation of its own reparse turns it into a space.
#include <iostream>
#include <libcellml>
int main()
{
    auto model = libcellml::Model::create("m");
    auto imp = libcellml::ImportSource::create();
    imp->setUrl("dir\twith tab/other\nmodel.cellml");
    auto c = libcellml::Component::create("c");
    c->setImportSource(imp);
    c->setImportReference("ref");
    model->addComponent(c);
    auto d = libcellml::Component::create("d");
    d->setId("id\twith\ttab");
    model->addComponent(d);
    auto validator = libcellml::Validator::create();
    validator->validateModel(model);
    std::cout << "validator issues: " << validator->issueCount() << std::endl;
    for (size_t i = 0; i < validator->issueCount(); ++i) std::cout << "  " << validator->issue(i)->description() << std::endl;
    auto doc = libcellml::Printer::create()->printModel(model);
    std::cout << doc;
    auto parser = libcellml::Parser::create(true);
    auto m2 = parser->parseModel(doc);
    std::cout << "parser issues: " << parser->issueCount() << std::endl;
    auto url2 = m2->component("c")->importSource()->url();
    auto id2 = m2->component("d")->id();
    int rc = 0;
    if (url2 != imp->url()) { std::cout << "MISMATCH: href was [" << imp->url() << "] is now [" << url2 << "]" << std::endl; rc = 1; }
    if (id2 != d->id()) { std::cout << "MISMATCH: id was [" << d->id() << "] is now [" << id2 << "]" << std::endl; rc = 1; }
    return rc;
}
