// Probe 10 (unchanged tree): units that the imported component names only in a <cn> of a reset (test_value / reset_value).
#include "common.h"
int main()
{
    std::string lib = mdl("lib",
        "<units name=\"ms\"><unit prefix=\"milli\" units=\"second\"/></units>\n"
        "<component name=\"p\"><variable name=\"t\" units=\"second\" initial_value=\"0\"/><variable name=\"x\" units=\"second\" initial_value=\"1\"/>\n"
        "<reset variable=\"x\" test_variable=\"t\" order=\"1\"><test_value>" + std::string("<math xmlns=\"http://www.w3.org/1998/Math/MathML\" xmlns:cellml=\"http://www.cellml.org/cellml/2.0#\"><cn cellml:units=\"ms\">5</cn></math>") + "</test_value><reset_value>" + std::string("<math xmlns=\"http://www.w3.org/1998/Math/MathML\" xmlns:cellml=\"http://www.cellml.org/cellml/2.0#\"><cn cellml:units=\"ms\">0</cn></math>") + "</reset_value></reset>\n"
        "</component>\n");
    std::string top = mdl("top",
        "<import xlink:href=\"lib.cellml\"><component name=\"i\" component_ref=\"p\"/></import>\n");
    auto libM = parse(lib, "lib");
    auto topM = parse(top, "top");
    auto imp = libcellml::Importer::create();
    imp->addModel(libM, "lib.cellml");
    imp->resolveImports(topM, "");
    std::cout << "importing model errors: " << validate(topM, "top") << ", library errors: " << validate(libM, "lib") << "\n";
    auto flat = imp->flattenModel(topM);
    if (!flat) { std::cout << "flatten failed\n"; return 2; }
    size_t e = validate(flat, "flat");
    std::cout << print(flat);
    std::cout << "flat model errors: " << e << ", units 'ms' present in the flat model: " << flat->hasUnits("ms") << "\n";
    return (e || !flat->hasUnits("ms")) ? 1 : 0;
}
