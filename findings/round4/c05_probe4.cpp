// A previously returned AnalyserModel is altered by a later analyseModel() call on a model that fails validation.
#include "dump.h"
int main()
{
    auto parser = libcellml::Parser::create();
    auto good = parser->parseModel(HDR + "<component name=\"c\">" + var("a") + MB + eq(ci("a"), cn("1")) + ME + "</component></model>");
    auto analyser = libcellml::Analyser::create();
    analyser->analyseModel(good);
    auto am = analyser->model();
    std::cout << "after analysing the valid model: type=" << libcellml::AnalyserModel::typeAsString(am->type()) << " variables=" << am->variableCount() << "\n";
    auto bad = libcellml::Model::create("bad");
    auto comp = libcellml::Component::create("c");
    bad->addComponent(comp);
    comp->addVariable(libcellml::Variable::create("v")); // no units: validation error
    analyser->analyseModel(bad);
    std::cout << "after analysing an invalid model with the same analyser: analyser->model()==previous? " << (analyser->model() == am)
              << "; previous AnalyserModel type=" << libcellml::AnalyserModel::typeAsString(am->type()) << " variables=" << am->variableCount() << "\n";
    return 0;
}
