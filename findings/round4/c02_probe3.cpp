// probe3: an encapsulation hierarchy deeper than libxml2's default nesting limit (256): the printer's own reparse fails
// and printModel returns an empty string for a valid model.  The same happens with deeply nested MathML.
#include <iostream>
#include <libcellml>
int main(int argc, char **argv)
{
    int depth = (argc > 1) ? std::atoi(argv[1]) : 300;
    auto model = libcellml::Model::create("m");
    libcellml::ComponentEntityPtr parent = model;
    for (int i = 0; i < depth; ++i) {
        auto c = libcellml::Component::create("c" + std::to_string(i));
        parent->addComponent(c);
        parent = c;
    }
    auto validator = libcellml::Validator::create();
    validator->validateModel(model);
    std::cout << "depth " << depth << ", validator issues: " << validator->issueCount() << std::endl;
    auto printer = libcellml::Printer::create();
    auto doc = printer->printModel(model);
    std::cout << "document size: " << doc.size() << ", printer issues: " << printer->issueCount() << std::endl;
    return doc.empty() ? 1 : 0;
}
