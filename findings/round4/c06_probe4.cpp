// Probe 4 (unchanged tree): a local component encapsulated below an import component uses the importer's units 'u';
// the imported component uses the library's (different) units 'u'.
#include "common.h"
int main()
{
    std::string lib = mdl("lib",
        "<units name=\"u\"><unit prefix=\"milli\" units=\"second\"/></units>\n"
        "<component name=\"p\"><variable name=\"x\" units=\"u\" initial_value=\"1\"/></component>\n");
    std::string top = mdl("top",
        "<import xlink:href=\"lib.cellml\"><component name=\"i\" component_ref=\"p\"/></import>\n"
        "<units name=\"u\"><unit units=\"volt\"/></units>\n"
        "<component name=\"loc\"><variable name=\"y\" units=\"u\" initial_value=\"4\"/></component>\n"
        "<encapsulation><component_ref component=\"i\"><component_ref component=\"loc\"/></component_ref></encapsulation>\n");
    auto libM = parse(lib, "lib");
    auto topM = parse(top, "top");
    auto imp = libcellml::Importer::create();
    imp->addModel(libM, "lib.cellml");
    imp->resolveImports(topM, "");
    std::cout << "importing model errors: " << validate(topM, "top") << ", library errors: " << validate(libM, "lib") << "\n";
    auto flat = imp->flattenModel(topM);
    if (!flat) { std::cout << "flatten failed\n"; return 2; }
    size_t e = validate(flat, "flat");
    std::cout << print(flat);
    std::cout << "flat model errors: " << e << "\n";
    auto locComponent = flat->component("loc", true);
    bool renamed = locComponent == nullptr;
    if (renamed) {
        std::cout << "component 'loc' was renamed to 'loc_1' although nothing clashes with it\n";
        locComponent = flat->component("loc_1", true);
    }
    auto y = locComponent->variable("y");
    double f = libcellml::Units::scalingFactor(topM->component("loc", true)->variable("y")->units(), y->units());
    bool wrong = renamed || (f != 1.0);
    std::cout << "units of loc/y: 'u' (volt) in the importing model, '" << y->units()->name() << "' in the flat model, scaling factor " << f << " (0 = incompatible)\n";
    return (e || wrong) ? 1 : 0;
}
