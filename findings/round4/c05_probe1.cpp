#include "dump.h"
int main()
{
    libcellml::AnalyserPtr an;
    // P1: NLA unknown x (no init) reading initialised y that is itself NLA-computed.
    std::cout << "== P1: f(x,y)=0 [x no init, y init], g(y)=0\n";
    analyse(HDR + "<component name=\"c\">" + var("x") + var("y", "1") + var("z") + MB
            + eq(ap("plus", ap("times", ci("x"), ci("x")), ci("y")), cn("5"))
            + eq(ap("times", ci("y"), ci("y")), cn("4"))
            + eq(ci("z"), ci("x"))
            + ME + "</component></model>", an);
    // P2: NLA unknown reading constant only.
    std::cout << "== P2: f(x,k)=0 [x no init, k const]\n";
    analyse(HDR + "<component name=\"c\">" + var("x") + var("k", "1") + MB
            + eq(ap("plus", ap("times", ci("x"), ci("x")), ci("k")), cn("5"))
            + ME + "</component></model>", an);
    // P3: rate read on rhs
    std::cout << "== P3: dx/dt = 1; a = dx/dt + 1\n";
    analyse(HDR + "<component name=\"c\">" + var("t") + var("x", "0") + var("a") + MB
            + eq(diff("x", "t"), cn("1"))
            + eq(ci("a"), ap("plus", diff("x", "t"), cn("1")))
            + ME + "</component></model>", an);
    // P4: triangular NLA system
    std::cout << "== P4: f(x)=0 [x init], g(x,y)=0 [y init]\n";
    analyse(HDR + "<component name=\"c\">" + var("x", "1") + var("y", "1") + MB
            + eq(ap("times", ci("x"), ci("x")), cn("4"))
            + eq(ap("plus", ap("times", ci("y"), ci("y")), ci("x")), cn("5"))
            + ME + "</component></model>", an);
    // P5: cyclic 3x3 NLA
    std::cout << "== P5: f(x,y)=0, g(y,z)=0, h(z,x)=0 all init\n";
    analyse(HDR + "<component name=\"c\">" + var("x", "1") + var("y", "1") + var("z", "1") + MB
            + eq(ap("plus", ci("x"), ci("y")), cn("4"))
            + eq(ap("plus", ci("y"), ci("z")), cn("5"))
            + eq(ap("plus", ci("z"), ci("x")), cn("3"))
            + ME + "</component></model>", an);
    // P6: overconstrained report mentions constant / voi
    std::cout << "== P6: y = k + t ; y = k + t again\n";
    analyse(HDR + "<component name=\"c\">" + var("t") + var("s", "0") + var("k", "1") + var("y") + MB
            + eq(diff("s", "t"), cn("1"))
            + eq(ci("y"), ap("plus", ci("k"), ci("t")))
            + eq(ci("y"), ap("plus", ci("k"), ci("t")))
            + ME + "</component></model>", an);
    return 0;
}
