// A unary plus is transparent for the code but not for the parenthesisation rules:
// a - (+(b - d)) is emitted as a-b-d (13 expected, 5 computed); a * (+(b + d)) as a*b+d (84 expected, 40 computed).
#include "probe_common.h"
int main()
{
    probe(std::string(HDR) + R"CELLML(  <component name="c">
    <variable name="a" units="dimensionless" initial_value="12"/>
    <variable name="b" units="dimensionless" initial_value="3"/>
    <variable name="d" units="dimensionless" initial_value="4"/>
    <variable name="y" units="dimensionless"/>
    <variable name="z" units="dimensionless"/>
    <variable name="w" units="dimensionless"/>
    <math xmlns="http://www.w3.org/1998/Math/MathML">
      <apply><eq/><ci>y</ci>
        <apply><minus/><ci>a</ci><apply><plus/><apply><minus/><ci>b</ci><ci>d</ci></apply></apply></apply>
      </apply>
      <apply><eq/><ci>z</ci>
        <apply><divide/><ci>a</ci><apply><plus/><apply><times/><ci>b</ci><ci>d</ci></apply></apply></apply>
      </apply>
      <apply><eq/><ci>w</ci>
        <apply><times/><ci>a</ci><apply><plus/><apply><plus/><ci>b</ci><ci>d</ci></apply></apply></apply>
      </apply>
      </math>
  </component>
</model>
)CELLML");
    return 0;
}
