// a / log_b(x) is emitted as a/log(x)/log(b): y must be 12/log_3(9) = 6, the code gives 12/ln(9)/ln(3) = 4.97
// (log with a <logbase> yields "ln(x)/ln(b)" but its AST node is not a DIVIDE, so the parent adds no parentheses). Both profiles.
#include "probe_common.h"
int main()
{
    probe(std::string(HDR) + R"CELLML(  <component name="c">
    <variable name="a" units="dimensionless" initial_value="12"/>
    <variable name="x" units="dimensionless" initial_value="9"/>
    <variable name="b" units="dimensionless" initial_value="3"/>
    <variable name="y" units="dimensionless"/>
    <variable name="z" units="dimensionless"/>
    <variable name="w" units="dimensionless"/>
    <math xmlns="http://www.w3.org/1998/Math/MathML">
      <apply><eq/><ci>y</ci>
        <apply><divide/><ci>a</ci><apply><log/><logbase><ci>b</ci></logbase><ci>x</ci></apply></apply>
      </apply>
      <apply><eq/><ci>z</ci>
        <apply><divide/><ci>a</ci><apply><root/><degree><ci>b</ci></degree><ci>x</ci></apply></apply>
      </apply>
      <apply><eq/><ci>w</ci>
        <apply><power/><ci>a</ci><apply><log/><logbase><ci>b</ci></logbase><ci>x</ci></apply></apply>
      </apply>
    </math>
  </component>
</model>
)CELLML");
    return 0;
}
