// probe2: a valid model with the crossed mappings X.a <-> Y.b and X.b <-> Y.a: the parser sorts the two names of each
// map_variables before looking for duplicates, so it reports the second map_variables as "not unique".
#include <iostream>
#include <libcellml>
int main()
{
    auto model = libcellml::Model::create("m");
    auto X = libcellml::Component::create("X");
    auto Y = libcellml::Component::create("Y");
    model->addComponent(X);
    model->addComponent(Y);
    auto mk = [](const libcellml::ComponentPtr &c, const std::string &n) {
        auto v = libcellml::Variable::create(n);
        v->setUnits("second");
        v->setInterfaceType("public");
        c->addVariable(v);
        return v;
    };
    auto xa = mk(X, "a"), xb = mk(X, "b"), ya = mk(Y, "a"), yb = mk(Y, "b");
    libcellml::Variable::addEquivalence(xa, yb);
    libcellml::Variable::addEquivalence(xb, ya);
    auto validator = libcellml::Validator::create();
    validator->validateModel(model);
    std::cout << "validator issues: " << validator->issueCount() << std::endl;
    for (size_t i = 0; i < validator->issueCount(); ++i) std::cout << "  " << validator->issue(i)->description() << std::endl;
    auto doc = libcellml::Printer::create()->printModel(model);
    std::cout << doc;
    auto parser = libcellml::Parser::create(true);
    auto m2 = parser->parseModel(doc);
    std::cout << "parser issues: " << parser->issueCount() << std::endl;
    for (size_t i = 0; i < parser->issueCount(); ++i) std::cout << "  " << parser->issue(i)->description() << std::endl;
    return ((validator->issueCount() == 0) && (parser->issueCount() != 0)) ? 1 : 0;
}
