// Probe 8 (unchanged tree): imported units with two levels of dependencies; the deepest one has the name of other units of the importer.
#include "common.h"
int main()
{
    std::string lib = mdl("lib",
        "<units name=\"C\"><unit prefix=\"milli\" units=\"second\"/></units>\n"
        "<units name=\"B\"><unit multiplier=\"60\" units=\"C\"/></units>\n"
        "<units name=\"per_B\"><unit exponent=\"-1\" units=\"B\"/></units>\n");
    std::string top = mdl("top",
        "<import xlink:href=\"lib.cellml\"><units name=\"rate\" units_ref=\"per_B\"/></import>\n"
        "<units name=\"C\"><unit units=\"volt\"/></units>\n"
        "<component name=\"c\"><variable name=\"k\" units=\"rate\" initial_value=\"1\"/><variable name=\"v\" units=\"C\" initial_value=\"1\"/></component>\n");
    auto libM = parse(lib, "lib");
    auto topM = parse(top, "top");
    auto imp = libcellml::Importer::create();
    imp->addModel(libM, "lib.cellml");
    imp->resolveImports(topM, "");
    std::cout << "importing model errors: " << validate(topM, "top") << ", library errors: " << validate(libM, "lib") << "\n";
    auto before = topM->component("c")->variable("k")->units();
    auto flat = imp->flattenModel(topM);
    if (!flat) { std::cout << "flatten failed\n"; return 2; }
    size_t e = validate(flat, "flat");
    std::cout << print(flat);
    std::cout << "flat model errors: " << e << "\n";
    auto after = flat->component("c")->variable("k")->units();
    bool same = libcellml::Units::compatible(before, after);
    std::cout << "units of c/k compatible before/after flattening: " << same << "\n";
    return (e || !same) ? 1 : 0;
}
