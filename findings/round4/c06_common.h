// Helper shared by the demo and the probes (public API only).
#pragma once
#include <iostream>
#include <string>
#include <vector>
#include <libcellml>

static const char *HDR = "<?xml version=\"1.0\" encoding=\"UTF-8\"?>\n<model xmlns=\"http://www.cellml.org/cellml/2.0#\" xmlns:cellml=\"http://www.cellml.org/cellml/2.0#\" xmlns:xlink=\"http://www.w3.org/1999/xlink\" name=\"";
inline std::string mdl(const std::string &name, const std::string &body) { return std::string(HDR) + name + "\">\n" + body + "</model>\n"; }
inline std::string math(const std::string &body) { return "<math xmlns=\"http://www.w3.org/1998/Math/MathML\">" + body + "</math>\n"; }

inline libcellml::ModelPtr parse(const std::string &s, const char *what)
{
    auto p = libcellml::Parser::create();
    auto m = p->parseModel(s);
    for (size_t i = 0; i < p->issueCount(); ++i) std::cout << "  [parse " << what << "] " << p->issue(i)->description() << "\n";
    return m;
}
inline size_t validate(const libcellml::ModelPtr &m, const char *what)
{
    auto v = libcellml::Validator::create();
    v->validateModel(m);
    for (size_t i = 0; i < v->issueCount(); ++i) std::cout << "  [validate " << what << "] " << v->issue(i)->description() << "\n";
    return v->errorCount();
}
inline std::string print(const libcellml::ModelPtr &m) { return libcellml::Printer::create()->printModel(m); }
