// A piecewise used as the condition of a piece: the Python code "1.0 if X if C else Y else 2.0" is a SyntaxError (the C code is fine).
#include "probe_common.h"
int main()
{
    probe(std::string(HDR) + R"CELLML(  <component name="c">
    <variable name="a" units="dimensionless" initial_value="b"/>
    <variable name="b" units="dimensionless" initial_value="3"/>
    <variable name="d" units="dimensionless" initial_value="0"/>
    <variable name="y" units="dimensionless"/>
    <variable name="z" units="dimensionless"/>
    <variable name="w" units="dimensionless"/>
    <math xmlns="http://www.w3.org/1998/Math/MathML">
      <apply><eq/><ci>y</ci>
        <apply><plus/><apply><not/><ci>d</ci></apply><ci>b</ci></apply>
      </apply>
      <apply><eq/><ci>z</ci>
        <apply><plus/><ci>b</ci><apply><not/><ci>d</ci></apply></apply>
      </apply>
      <apply><eq/><ci>w</ci>
        <piecewise><piece><cn cellml:units="dimensionless">1</cn>
           <piecewise><piece><ci>d</ci><apply><gt/><ci>b</ci><ci>a</ci></apply></piece><otherwise><ci>b</ci></otherwise></piecewise>
        </piece><otherwise><cn cellml:units="dimensionless">2</cn></otherwise></piecewise>
      </apply>
    </math>
  </component>
</model>
)CELLML", true);
    return 0;
}
