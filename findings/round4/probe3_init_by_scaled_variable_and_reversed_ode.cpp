// (a) state s (mV) has initial_value="k", k (mV) is mapped to B.k (volt, = 7): states[0] = variables[0] gives 7 instead of 7000.
// (b) "3 = dr/dt" with the local voi in ms and the primary voi in s: emits "3.0 = 1000.0*rates[1];" which does not compile
//     (the RHS derivative is scaled in place, so the LHS/RHS swap no longer recognises it).
#include "probe_common.h"
int main()
{
    probe(std::string(HDR) + R"CELLML(  <units name="mV"><unit prefix="milli" units="volt"/></units>
  <units name="ms"><unit prefix="milli" units="second"/></units>
  <units name="mV_per_s"><unit units="mV"/><unit units="second" exponent="-1"/></units>
  <units name="mV_per_ms"><unit units="mV"/><unit units="ms" exponent="-1"/></units>
  <component name="env">
    <variable name="t" units="second" interface="public"/>
  </component>
  <component name="A">
    <variable name="t" units="second" interface="public"/>
    <variable name="k" units="mV" interface="public"/>
    <variable name="s" units="mV" initial_value="k" interface="public"/>
    <math xmlns="http://www.w3.org/1998/Math/MathML">
      <apply><eq/><apply><diff/><bvar><ci>t</ci></bvar><ci>s</ci></apply><cn cellml:units="mV_per_s">1</cn></apply>
    </math>
  </component>
  <component name="B">
    <variable name="t" units="ms" interface="public"/>
    <variable name="k" units="volt" initial_value="7" interface="public"/>
    <variable name="r" units="mV" initial_value="2" interface="public"/>
    <math xmlns="http://www.w3.org/1998/Math/MathML">
      <apply><eq/><cn cellml:units="mV_per_ms">3</cn><apply><diff/><bvar><ci>t</ci></bvar><ci>r</ci></apply></apply>
    </math>
  </component>
  <connection component_1="env" component_2="A"><map_variables variable_1="t" variable_2="t"/></connection>
  <connection component_1="env" component_2="B"><map_variables variable_1="t" variable_2="t"/></connection>
  <connection component_1="A" component_2="B"><map_variables variable_1="k" variable_2="k"/></connection>
</model>
)CELLML");
    return 0;
}
