// Probe 6 (unchanged tree): chain of component imports; the importer is connected to a variable of the imported component,
// the intermediate library only passes the component on.
#include "common.h"
int main()
{
    std::string lib2 = mdl("lib2", "<component name=\"src\"><variable name=\"x\" units=\"second\" initial_value=\"7\" interface=\"public\"/></component>\n");
    std::string lib1 = mdl("lib1", "<import xlink:href=\"lib2.cellml\"><component name=\"mid\" component_ref=\"src\"/></import>\n");
    std::string top = mdl("top",
        "<import xlink:href=\"lib1.cellml\"><component name=\"i\" component_ref=\"mid\"/></import>\n"
        "<component name=\"loc\"><variable name=\"y\" units=\"second\" interface=\"public\"/></component>\n"
        "<connection component_1=\"i\" component_2=\"loc\"><map_variables variable_1=\"x\" variable_2=\"y\"/></connection>\n");
    auto lib2M = parse(lib2, "lib2");
    auto lib1M = parse(lib1, "lib1");
    auto topM = parse(top, "top");
    auto imp = libcellml::Importer::create();
    imp->addModel(lib2M, "lib2.cellml");
    imp->addModel(lib1M, "lib1.cellml");
    bool ok = imp->resolveImports(topM, "");
    for (size_t i = 0; i < imp->issueCount(); ++i) std::cout << "  [importer] " << imp->issue(i)->description() << "\n";
    std::cout << "resolved: " << ok << ", importing model errors: " << validate(topM, "top") << "\n";
    auto flat = imp->flattenModel(topM);
    if (!flat) { std::cout << "flatten failed\n"; return 2; }
    size_t e = validate(flat, "flat");
    std::cout << print(flat);
    std::cout << "flat model errors: " << e << "\n";
    auto y = flat->component("loc")->variable("y");
    std::cout << "loc/y has " << y->equivalentVariableCount() << " equivalent variable(s) in the flat model (1 in the importing model)\n";
    return (e || y->equivalentVariableCount() != 1) ? 1 : 0;
}
