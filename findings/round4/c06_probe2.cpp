// Probe 2 (unchanged tree): the new name given to a clashing imported child clashes with another imported child.
#include "common.h"
int main()
{
    std::string lib = mdl("lib",
        "<component name=\"p\"><variable name=\"x\" units=\"second\" initial_value=\"1\"/></component>\n"
        "<component name=\"c\"><variable name=\"x\" units=\"second\" initial_value=\"2\"/></component>\n"
        "<component name=\"c_1\"><variable name=\"x\" units=\"second\" initial_value=\"3\"/></component>\n"
        "<encapsulation><component_ref component=\"p\"><component_ref component=\"c\"/><component_ref component=\"c_1\"/></component_ref></encapsulation>\n");
    std::string top = mdl("top",
        "<import xlink:href=\"lib.cellml\"><component name=\"i\" component_ref=\"p\"/></import>\n"
        "<component name=\"c\"><variable name=\"y\" units=\"second\" initial_value=\"4\"/></component>\n");
    auto libM = parse(lib, "lib");
    auto topM = parse(top, "top");
    auto imp = libcellml::Importer::create();
    imp->addModel(libM, "lib.cellml");
    imp->resolveImports(topM, "");
    std::cout << "importing model errors: " << validate(topM, "top") << ", library errors: " << validate(libM, "lib") << "\n";
    auto flat = imp->flattenModel(topM);
    if (!flat) { std::cout << "flatten failed\n"; return 2; }
    size_t e = validate(flat, "flat");
    std::cout << print(flat);
    std::cout << "flat model errors: " << e << "\n";
    return e ? 1 : 0;
}
