// probe5: a unit whose exponent (or multiplier) is infinite or NaN is written as "inf" / "nan", which the parser
// rejects: the value is lost and an issue is raised.  (Shown with what the validator says about that model.)
#include <cmath>
#include <iostream>
#include <limits>
#include <libcellml>
int main()
{
    auto model = libcellml::Model::create("m");
    auto u = libcellml::Units::create("u");
    u->addUnit("second", 0, std::numeric_limits<double>::infinity(), 1.0);
    u->addUnit("metre", 0, 1.0, std::nan(""));
    model->addUnits(u);
    auto validator = libcellml::Validator::create();
    validator->validateModel(model);
    std::cout << "validator issues: " << validator->issueCount() << std::endl;
    for (size_t i = 0; i < validator->issueCount(); ++i) std::cout << "  " << validator->issue(i)->description() << std::endl;
    auto doc = libcellml::Printer::create()->printModel(model);
    std::cout << doc;
    auto parser = libcellml::Parser::create(true);
    auto m2 = parser->parseModel(doc);
    std::cout << "parser issues: " << parser->issueCount() << std::endl;
    for (size_t i = 0; i < parser->issueCount(); ++i) std::cout << "  " << parser->issue(i)->description() << std::endl;
    std::cout << "exponent read back: " << m2->units(0)->unitAttributeExponent(0) << ", multiplier read back: " << m2->units(0)->unitAttributeMultiplier(1) << std::endl;
    return (parser->issueCount() == 0) ? 0 : 1;
}
