// Probe 1 (unchanged tree): imported UNITS whose child units are equivalent to units of the importer that have another name.
#include "common.h"
int main()
{
    std::string lib = mdl("lib",
        "<units name=\"msec\"><unit prefix=\"milli\" units=\"second\"/></units>\n"
        "<units name=\"per_msec\"><unit exponent=\"-1\" units=\"msec\"/></units>\n");
    std::string top = mdl("top",
        "<import xlink:href=\"lib.cellml\"><units name=\"rate\" units_ref=\"per_msec\"/></import>\n"
        "<units name=\"ms\"><unit prefix=\"milli\" units=\"second\"/></units>\n"
        "<component name=\"c\"><variable name=\"k\" units=\"rate\" initial_value=\"1\"/><variable name=\"t\" units=\"ms\" initial_value=\"1\"/></component>\n");
    auto libM = parse(lib, "lib");
    auto topM = parse(top, "top");
    auto imp = libcellml::Importer::create();
    imp->addModel(libM, "lib.cellml");
    imp->resolveImports(topM, "");
    std::cout << "importing model errors: " << validate(topM, "top") << ", library errors: " << validate(libM, "lib") << "\n";
    auto flat = imp->flattenModel(topM);
    if (!flat) { std::cout << "flatten failed\n"; return 2; }
    size_t e = validate(flat, "flat");
    std::cout << print(flat);
    std::cout << "flat model errors: " << e << "\n";
    return e ? 1 : 0;
}
