// a has initial_value="b", b = 3, and a is met before b: "variables[1] = variables[2]" is emitted before "variables[2] = 3.0",
// so a (and y = a+b) is computed from an uninitialised array element.
#include "probe_common.h"
int main()
{
    probe(std::string(HDR) + R"CELLML(  <component name="c">
    <variable name="a" units="dimensionless" initial_value="b"/>
    <variable name="b" units="dimensionless" initial_value="3"/>
    <variable name="y" units="dimensionless"/>
    <math xmlns="http://www.w3.org/1998/Math/MathML">
      <apply><eq/><ci>y</ci><apply><plus/><ci>a</ci><ci>b</ci></apply></apply>
    </math>
  </component>
</model>
)CELLML");
    return 0;
}
