// Probe 3 (unchanged tree): clashing units used only by a <cn> of a grandchild of the imported component.
#include "common.h"
int main()
{
    std::string lib = mdl("lib",
        "<units name=\"u\"><unit prefix=\"milli\" units=\"second\"/></units>\n"
        "<component name=\"p\"><variable name=\"x\" units=\"second\" initial_value=\"1\"/></component>\n"
        "<component name=\"c\"><variable name=\"x\" units=\"second\" initial_value=\"2\"/></component>\n"
        "<component name=\"g\"><variable name=\"x\" units=\"second\"/>" + math("<apply><eq/><ci>x</ci><cn cellml:units=\"u\">3</cn></apply>") + "</component>\n"
        "<encapsulation><component_ref component=\"p\"><component_ref component=\"c\"><component_ref component=\"g\"/></component_ref></component_ref></encapsulation>\n");
    std::string top = mdl("top",
        "<import xlink:href=\"lib.cellml\"><component name=\"i\" component_ref=\"p\"/></import>\n"
        "<units name=\"u\"><unit units=\"volt\"/></units>\n"
        "<component name=\"loc\"><variable name=\"y\" units=\"u\" initial_value=\"4\"/></component>\n");
    auto libM = parse(lib, "lib");
    auto topM = parse(top, "top");
    auto imp = libcellml::Importer::create();
    imp->addModel(libM, "lib.cellml");
    imp->resolveImports(topM, "");
    std::cout << "importing model errors: " << validate(topM, "top") << ", library errors: " << validate(libM, "lib") << "\n";
    auto flat = imp->flattenModel(topM);
    if (!flat) { std::cout << "flatten failed\n"; return 2; }
    size_t e = validate(flat, "flat");
    std::cout << print(flat);
    std::cout << "flat model errors: " << e << "\n";
    bool wrong = print(flat).find("cellml:units=\"u\"") != std::string::npos;
    if (wrong) std::cout << "the cn of component g still names units 'u', which in the flat model are the importer's units (volt), not the library's (millisecond)\n";
    return (e || wrong) ? 1 : 0;
}
