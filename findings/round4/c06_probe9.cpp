// Probe 9 (unchanged tree): the imported component uses units 'u' and 'u_1'; the importer has other units 'u'.
// The library's 'u' becomes 'u_1', then the library's 'u_1' becomes 'u_1_1' and takes the just renamed usages along.
#include "common.h"
int main()
{
    std::string lib = mdl("lib",
        "<units name=\"u\"><unit prefix=\"milli\" units=\"second\"/></units>\n"
        "<units name=\"u_1\"><unit prefix=\"milli\" units=\"volt\"/></units>\n"
        "<component name=\"p\"><variable name=\"a\" units=\"u\" initial_value=\"1\"/><variable name=\"b\" units=\"u_1\" initial_value=\"2\"/></component>\n");
    std::string top = mdl("top",
        "<import xlink:href=\"lib.cellml\"><component name=\"i\" component_ref=\"p\"/></import>\n"
        "<units name=\"u\"><unit units=\"ampere\"/></units>\n"
        "<component name=\"loc\"><variable name=\"y\" units=\"u\" initial_value=\"4\"/></component>\n");
    auto libM = parse(lib, "lib");
    auto topM = parse(top, "top");
    auto imp = libcellml::Importer::create();
    imp->addModel(libM, "lib.cellml");
    imp->resolveImports(topM, "");
    std::cout << "importing model errors: " << validate(topM, "top") << ", library errors: " << validate(libM, "lib") << "\n";
    auto flat = imp->flattenModel(topM);
    if (!flat) { std::cout << "flatten failed\n"; return 2; }
    size_t e = validate(flat, "flat");
    std::cout << print(flat);
    std::cout << "flat model errors: " << e << "\n";
    auto a = flat->component("i")->variable("a");
    double f = libcellml::Units::scalingFactor(libM->component("p")->variable("a")->units(), a->units());
    std::cout << "i/a: units in the library 'u' (millisecond), in the flat model '" << a->units()->name() << "', scaling factor " << f << " (0 = incompatible)\n";
    return (e || f != 1.0) ? 1 : 0;
}
