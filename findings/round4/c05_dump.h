// Helper shared by the probes: parse a CellML 2.0 string, analyse, dump.
#pragma once
#include <iostream>
#include <string>
#include <libcellml>

static const std::string HDR = "<?xml version=\"1.0\" encoding=\"UTF-8\"?>\n<model xmlns=\"http://www.cellml.org/cellml/2.0#\" name=\"m\">\n";
static const std::string MB = "<math xmlns=\"http://www.w3.org/1998/Math/MathML\" xmlns:cellml=\"http://www.cellml.org/cellml/2.0#\">";
static const std::string ME = "</math>";

inline std::string var(const std::string &n, const std::string &init = "", const std::string &itf = "")
{
    return "<variable name=\"" + n + "\" units=\"dimensionless\"" + (init.empty() ? "" : " initial_value=\"" + init + "\"") + (itf.empty() ? "" : " interface=\"" + itf + "\"") + "/>\n";
}
inline std::string ci(const std::string &n) { return "<ci>" + n + "</ci>"; }
inline std::string cn(const std::string &v) { return "<cn cellml:units=\"dimensionless\">" + v + "</cn>"; }
inline std::string ap(const std::string &op, const std::string &a, const std::string &b = "") { return "<apply><" + op + "/>" + a + b + "</apply>"; }
inline std::string eq(const std::string &a, const std::string &b) { return ap("eq", a, b); }
inline std::string diff(const std::string &x, const std::string &t) { return "<apply><diff/><bvar>" + ci(t) + "</bvar>" + ci(x) + "</apply>"; }

inline libcellml::AnalyserModelPtr analyse(const std::string &xml, libcellml::AnalyserPtr &analyser, bool verbose = true)
{
    auto parser = libcellml::Parser::create();
    auto model = parser->parseModel(xml);
    for (size_t i = 0; i < parser->issueCount(); ++i) std::cout << "PARSER: " << parser->issue(i)->description() << "\n";
    analyser = libcellml::Analyser::create();
    analyser->analyseModel(model);
    auto am = analyser->model();
    if (verbose) {
        std::cout << "model type: " << libcellml::AnalyserModel::typeAsString(am->type()) << "\n";
        for (size_t i = 0; i < analyser->issueCount(); ++i) std::cout << "  issue: " << analyser->issue(i)->description() << "\n";
        if (am->voi()) std::cout << "  voi: " << am->voi()->variable()->name() << "\n";
        auto pv = [&](const libcellml::AnalyserVariablePtr &v) {
            std::cout << "  " << libcellml::AnalyserVariable::typeAsString(v->type()) << " [" << v->index() << "] "
                      << std::dynamic_pointer_cast<libcellml::Component>(v->variable()->parent())->name() << "." << v->variable()->name() << " eqs=" << v->equationCount() << "\n";
        };
        for (size_t i = 0; i < am->stateCount(); ++i) pv(am->state(i));
        for (size_t i = 0; i < am->variableCount(); ++i) pv(am->variable(i));
        for (size_t i = 0; i < am->equationCount(); ++i) {
            auto e = am->equation(i);
            std::cout << "  eq#" << i << " " << libcellml::AnalyserEquation::typeAsString(e->type()) << " computes:";
            for (size_t j = 0; j < e->variableCount(); ++j) std::cout << " " << e->variable(j)->variable()->name();
            std::cout << " deps:";
            for (size_t j = 0; j < e->dependencyCount(); ++j) {
                auto d = e->dependency(j);
                std::cout << " (" << libcellml::AnalyserEquation::typeAsString(d->type());
                for (size_t k = 0; k < d->variableCount(); ++k) std::cout << " " << d->variable(k)->variable()->name();
                std::cout << ")";
            }
            if (e->type() == libcellml::AnalyserEquation::Type::NLA) std::cout << " nlaSys=" << e->nlaSystemIndex() << " siblings=" << e->nlaSiblingCount();
            std::cout << "\n";
        }
    }
    return am;
}
