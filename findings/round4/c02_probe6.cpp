// probe6: the id of a connection is kept per variable pair; the printer writes the one returned for the LAST pair, and
// Variable::equivalenceConnectionId() itself walks a std::map ordered by pointer value.  Give a connection an id, then
// add a second map_variables to the same connection: whether the id is printed depends on the pair order.
#include <iostream>
#include <libcellml>
int main()
{
    int lost = 0;
    for (int variant = 0; variant < 2; ++variant) {
        auto model = libcellml::Model::create("m");
        auto X = libcellml::Component::create("X");
        auto Y = libcellml::Component::create("Y");
        model->addComponent(X);
        model->addComponent(Y);
        auto mk = [](const libcellml::ComponentPtr &c, const std::string &n) {
            auto v = libcellml::Variable::create(n);
            v->setUnits("second");
            v->setInterfaceType("public");
            c->addVariable(v);
            return v;
        };
        auto xa = mk(X, "a"), xb = mk(X, "b"), ya = mk(Y, "a"), yb = mk(Y, "b");
        auto first1 = (variant == 0) ? xa : xb;
        auto first2 = (variant == 0) ? ya : yb;
        auto second1 = (variant == 0) ? xb : xa;
        auto second2 = (variant == 0) ? yb : ya;
        libcellml::Variable::addEquivalence(first1, first2);
        libcellml::Variable::setEquivalenceConnectionId(first1, first2, "con_XY");
        libcellml::Variable::addEquivalence(second1, second2);
        auto doc = libcellml::Printer::create()->printModel(model);
        bool has = doc.find("id=\"con_XY\"") != std::string::npos;
        std::cout << "variant " << variant << ": id given to the pair " << first1->name() << "/" << first2->name()
                  << " before the pair " << second1->name() << "/" << second2->name() << " was added: connection id "
                  << (has ? "printed" : "NOT printed") << std::endl;
        if (!has) {
            ++lost;
            std::cout << doc;
        }
    }
    return lost;
}
