// Probe 7 (unchanged tree): the same component, which carries id attributes, imported twice under different names.
#include "common.h"
int main()
{
    std::string lib = mdl("lib", "<component name=\"src\" id=\"comp_src\"><variable name=\"x\" units=\"second\" initial_value=\"7\" id=\"var_x\"/></component>\n");
    std::string top = mdl("top",
        "<import xlink:href=\"lib.cellml\"><component name=\"a\" component_ref=\"src\"/><component name=\"b\" component_ref=\"src\"/></import>\n");
    auto libM = parse(lib, "lib");
    auto topM = parse(top, "top");
    auto imp = libcellml::Importer::create();
    imp->addModel(libM, "lib.cellml");
    bool ok = imp->resolveImports(topM, "");
    std::cout << "resolved: " << ok << ", importing model errors: " << validate(topM, "top") << ", library errors: " << validate(libM, "lib") << "\n";
    auto flat = imp->flattenModel(topM);
    if (!flat) { std::cout << "flatten failed\n"; return 2; }
    size_t e = validate(flat, "flat");
    std::cout << print(flat);
    std::cout << "flat model errors: " << e << "\n";
    return e ? 1 : 0;
}
