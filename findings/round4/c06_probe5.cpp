// Probe 5 (unchanged tree): imported units whose child units are themselves imported by the library under a name
// that the importer uses for other units.
#include "common.h"
int main()
{
    std::string lib2 = mdl("lib2", "<units name=\"ms\"><unit prefix=\"milli\" units=\"second\"/></units>\n");
    std::string lib1 = mdl("lib1",
        "<import xlink:href=\"lib2.cellml\"><units name=\"base\" units_ref=\"ms\"/></import>\n"
        "<units name=\"per_base\"><unit exponent=\"-1\" units=\"base\"/></units>\n");
    std::string top = mdl("top",
        "<import xlink:href=\"lib1.cellml\"><units name=\"rate\" units_ref=\"per_base\"/></import>\n"
        "<units name=\"base\"><unit units=\"volt\"/></units>\n"
        "<component name=\"c\"><variable name=\"k\" units=\"rate\" initial_value=\"1\"/><variable name=\"v\" units=\"base\" initial_value=\"1\"/></component>\n");
    auto lib2M = parse(lib2, "lib2");
    auto lib1M = parse(lib1, "lib1");
    auto topM = parse(top, "top");
    auto imp = libcellml::Importer::create();
    imp->addModel(lib2M, "lib2.cellml");
    imp->addModel(lib1M, "lib1.cellml");
    bool ok = imp->resolveImports(topM, "");
    for (size_t i = 0; i < imp->issueCount(); ++i) std::cout << "  [importer] " << imp->issue(i)->description() << "\n";
    std::cout << "resolved: " << ok << ", importing model errors: " << validate(topM, "top") << "\n";
    auto flat = imp->flattenModel(topM);
    if (!flat) { std::cout << "flatten failed\n"; return 2; }
    size_t e = validate(flat, "flat");
    std::cout << print(flat);
    std::cout << "flat model errors: " << e << "\n";
    return e ? 1 : 0;
}
