// <unit prefix="milli" units="metre" exponent="2"/> is (mm)^2 = 1e-6 m^2, but Units::scalingFactor() does not apply the exponent to the prefix:
// k (mm2) read in m2 is scaled by 0.001 instead of 1e-06, while the equivalent units built from a named mm (exponent 2) give 1e-06.
#include "probe_common.h"
int main()
{
    probe(std::string(HDR) + R"CELLML(  <units name="mm2"><unit prefix="milli" units="metre" exponent="2"/></units>
  <units name="m2"><unit units="metre" exponent="2"/></units>
  <units name="mm"><unit prefix="milli" units="metre"/></units>
  <units name="mm2b"><unit units="mm" exponent="2"/></units>
  <component name="A">
    <variable name="k" units="mm2" initial_value="5" interface="public"/>
    <variable name="j" units="mm2b" initial_value="5" interface="public"/>
  </component>
  <component name="B">
    <variable name="k" units="m2" interface="public"/>
    <variable name="j" units="m2" interface="public"/>
    <variable name="x" units="m2" interface="public"/>
    <variable name="y" units="m2" interface="public"/>
    <math xmlns="http://www.w3.org/1998/Math/MathML">
      <apply><eq/><ci>x</ci><apply><plus/><ci>k</ci><cn cellml:units="m2">1</cn></apply></apply>
      <apply><eq/><ci>y</ci><apply><plus/><ci>j</ci><cn cellml:units="m2">1</cn></apply></apply>
    </math>
  </component>
  <connection component_1="A" component_2="B"><map_variables variable_1="k" variable_2="k"/><map_variables variable_1="j" variable_2="j"/></connection>
</model>
)CELLML");
    return 0;
}
