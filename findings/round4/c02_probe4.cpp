// probe4: two MathML documents, each with its own XML declaration, on one line of the math string of a component:
// the regular expression that strips XML declarations is greedy (".*") and removes everything from the first
// declaration to the end of the last one, i.e. the whole first <math> element disappears from the printed model.
#include <iostream>
#include <libcellml>
int main()
{
    const std::string m1 = "<?xml version=\"1.0\" encoding=\"UTF-8\"?><math xmlns=\"http://www.w3.org/1998/Math/MathML\"><apply><eq/><ci>a</ci><ci>b</ci></apply></math>";
    const std::string m2 = "<?xml version=\"1.0\" encoding=\"UTF-8\"?><math xmlns=\"http://www.w3.org/1998/Math/MathML\"><apply><eq/><ci>b</ci><ci>c</ci></apply></math>";
    auto model = libcellml::Model::create("m");
    auto c = libcellml::Component::create("c");
    model->addComponent(c);
    for (const std::string n : {"a", "b", "c"}) {
        auto v = libcellml::Variable::create(n);
        v->setUnits("second");
        c->addVariable(v);
    }
    c->appendMath(m1);
    c->appendMath(m2);
    auto validator = libcellml::Validator::create();
    validator->validateModel(model);
    std::cout << "validator issues: " << validator->issueCount() << std::endl;
    for (size_t i = 0; i < validator->issueCount(); ++i) std::cout << "  " << validator->issue(i)->description() << std::endl;
    auto printer = libcellml::Printer::create();
    auto doc = printer->printModel(model);
    std::cout << doc << "printer issues: " << printer->issueCount() << std::endl;
    size_t count = 0;
    for (size_t pos = doc.find("<math"); pos != std::string::npos; pos = doc.find("<math", pos + 1)) ++count;
    std::cout << "math elements in the document: " << count << " (2 were set)" << std::endl;
    return (count == 2) ? 0 : 1;
}
