// build(abstract model record) -> ModelPtr through the public API. The record has the shape of the canonical
// content record (content.cpp), so "what was built" and "what was read back" compare field by field.
#include "build.h"

#include <cstdlib>

using namespace libcellml;

static std::string S(const J &j)
{
    std::string s = j.str("none");
    return s == "none" ? "" : untok(s);
}

ImportSourcePtr Built::importSource(const std::string &url, const std::string &id)
{
    auto key = std::make_pair(url, id);
    auto it = imports.find(key);
    if (it != imports.end()) {
        return it->second;
    }
    auto is = ImportSource::create();
    is->setUrl(url);
    if (!id.empty()) {
        is->setId(id);
    }
    imports[key] = is;
    return is;
}

Built buildModel(const J &am)
{
    Built b;
    auto m = Model::create(S(am["name"]));
    b.model = m;
    if (!S(am["id"]).empty()) {
        m->setId(S(am["id"]));
    }
    if (!S(am["encId"]).empty()) {
        m->setEncapsulationId(S(am["encId"]));
    }
    for (auto &u : am["units"].a) {
        auto units = Units::create(S(u["name"]));
        if (!S(u["id"]).empty()) {
            units->setId(S(u["id"]));
        }
        if (u["imp"].str("none") != "none") {
            auto is = b.importSource(S(u["imp"]), S(u["impId"]));
            units->setSourceUnits(is, S(u["ref"]));
        }
        for (auto &k : u["kids"].a) {
            std::string prefix = S(k["prefix"]);
            double e = strtod(k["exp"].str("1").c_str(), nullptr);
            double mult = strtod(k["mult"].str("1").c_str(), nullptr);
            units->addUnit(S(k["ref"]), prefix, e, mult, S(k["id"]));
        }
        m->addUnits(units);
        b.units[u["name"].str()] = units;
        b.unitsAt.push_back(units);
    }
    // components: parents first (records name their parent)
    std::map<std::string, ComponentPtr> comps;
    std::vector<const J *> pending;
    std::map<const J *, size_t> indexOf;
    for (auto &c : am["comps"].a) {
        indexOf[&c] = pending.size();
        pending.push_back(&c);
    }
    b.compAt.resize(pending.size());
    b.varAt.resize(pending.size());
    b.resetAt.resize(pending.size());
    size_t guard = 0;
    while (!pending.empty() && guard++ < 1000) {
        std::vector<const J *> next;
        for (auto pc : pending) {
            const J &c = *pc;
            std::string parent = c["parent"].str("none");
            if (parent != "none" && !comps.count(parent)) {
                next.push_back(pc);
                continue;
            }
            auto comp = Component::create(S(c["name"]));
            if (!S(c["id"]).empty()) {
                comp->setId(S(c["id"]));
            }
            if (!S(c["encId"]).empty()) {
                comp->setEncapsulationId(S(c["encId"]));
            }
            if (c["imp"].str("none") != "none") {
                auto is = b.importSource(S(c["imp"]), S(c["impId"]));
                comp->setSourceComponent(is, S(c["ref"]));
            }
            if (!S(c["math"]).empty()) {
                comp->setMath(S(c["math"]));
            }
            for (auto &v : c["vars"].a) {
                auto var = Variable::create(S(v["name"]));
                if (!S(v["id"]).empty()) {
                    var->setId(S(v["id"]));
                }
                std::string un = S(v["units"]);
                if (!un.empty()) {
                    auto it = b.units.find(v["units"].str());
                    if (it != b.units.end()) {
                        var->setUnits(it->second);
                    } else {
                        var->setUnits(un);
                    }
                }
                if (!S(v["init"]).empty()) {
                    var->setInitialValue(S(v["init"]));
                }
                if (!S(v["iface"]).empty()) {
                    var->setInterfaceType(S(v["iface"]));
                }
                comp->addVariable(var);
                b.vars[c["name"].str() + "/" + v["name"].str()] = var;
                b.varAt[indexOf[pc]].push_back(var);
            }
            for (auto &r : c["resets"].a) {
                auto rst = Reset::create();
                if (r["order"].str("unset") != "unset") {
                    rst->setOrder(atoi(r["order"].str().c_str()));
                }
                if (!S(r["id"]).empty()) {
                    rst->setId(S(r["id"]));
                }
                if (r["var"].str("none") != "none") {
                    rst->setVariable(b.vars[c["name"].str() + "/" + r["var"].str()]);
                }
                if (r["tvar"].str("none") != "none") {
                    rst->setTestVariable(b.vars[c["name"].str() + "/" + r["tvar"].str()]);
                }
                if (!S(r["tv"]).empty()) {
                    rst->setTestValue(S(r["tv"]));
                }
                if (!S(r["tvid"]).empty()) {
                    rst->setTestValueId(S(r["tvid"]));
                }
                if (!S(r["rv"]).empty()) {
                    rst->setResetValue(S(r["rv"]));
                }
                if (!S(r["rvid"]).empty()) {
                    rst->setResetValueId(S(r["rvid"]));
                }
                comp->addReset(rst);
                b.resets.push_back(rst);
                b.resetAt[indexOf[pc]].push_back(rst);
            }
            if (parent == "none") {
                m->addComponent(comp);
            } else {
                comps[parent]->addComponent(comp);
            }
            comps[c["name"].str()] = comp;
            b.compAt[indexOf[pc]] = comp;
        }
        pending.swap(next);
    }
    b.comps = comps;
    for (auto &cn : am["conns"].a) {
        for (auto &mp : cn["maps"].a) {
            auto v1 = b.vars[cn["c1"].str() + "/" + mp["v1"].str()];
            auto v2 = b.vars[cn["c2"].str() + "/" + mp["v2"].str()];
            if (!v1 || !v2) {
                continue;
            }
            Variable::addEquivalence(v1, v2);
            if (!S(mp["id"]).empty()) {
                Variable::setEquivalenceMappingId(v1, v2, S(mp["id"]));
            }
            if (!S(cn["id"]).empty()) {
                Variable::setEquivalenceConnectionId(v1, v2, S(cn["id"]));
            }
        }
    }
    return b;
}
