// Compile-and-run of generated code (C03, C17, C20): the generated C interface + implementation are compiled with a
// reflector main() written to match the signatures found in the generated interface; the generated Python is run
// by python3 with an equivalent reflector. Both print the same line-oriented report, parsed into GenRun.
#pragma once
#include "core.h"

#include <array>
#include <vector>

struct InfoRow
{
    std::string name, units, component, type;
};

struct ExtCall
{
    long index;
    std::vector<int> definedVariables; // indices of variables (and states as -1-i) that were not NaN at the call
};

struct GenRun
{
    bool built = false; // compiled and linked / imported
    bool ran = false;
    std::string diagnostics; // compiler diagnostics other than unused-parameter / unused-variable
    bool hasStates = false;
    long stateCount = -1;
    long variableCount = -1;
    std::vector<InfoRow> stateInfo, variableInfo;
    InfoRow voiInfo;
    bool hasVoi = false;
    std::vector<double> states, rates, variables;
    std::vector<ExtCall> extCalls;
    std::vector<double> residuals; // |f| of every NLA objective function at the solution used
    std::vector<std::string> declared, defined; // function names of the interface / implementation
    bool infoFits = true; // every info string fits its declared buffer
};

GenRun runGeneratedC(const std::string &interfaceCode, const std::string &implementationCode);
GenRun runGeneratedPython(const std::string &implementationCode);
J genRunToJson(const GenRun &r);
std::string treeToMathml(const J &tree); // Expr.tla trees -> content MathML (cellml:units="dimensionless" on cn)
