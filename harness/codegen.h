// Compile-and-run of generated code (C03, C17, C20): the generated C interface + implementation are compiled with a
// reflector main() written to match the signatures found in the generated interface; the generated Python is run
// by python3 with an equivalent reflector. Both print the same line-oriented report, parsed into GenRun.
#pragma once
#include "core.h"

#include <array>
#include <map>
#include <vector>

struct InfoRow
{
    std::string name, units, component, type;
};

struct ExtCall
{
    int phase = 0; // 0 initialiseVariables, 2 computeRates, 3 computeVariables; 4 / 5: computeRates / computeVariables of the second step
    long index;
    std::vector<int> definedVariables; // indices of variables (and states as -1-i) that were not NaN at the call
};

struct GenRun
{
    bool built = false; // compiled and linked / imported
    bool ran = false;
    std::string diagnostics; // compiler diagnostics other than unused-parameter / unused-variable
    bool hasStates = false;
    long stateCount = -1;
    long variableCount = -1;
    std::vector<InfoRow> stateInfo, variableInfo;
    InfoRow voiInfo;
    bool hasVoi = false;
    std::vector<double> states, rates, variables;
    std::vector<double> states2, rates2, variables2; // after a second computeRates / computeVariables with the callback's second value set
    std::vector<ExtCall> extCalls;
    std::vector<double> residuals; // |f| of every NLA objective function at the solution used
    std::vector<std::string> declared, defined; // function names of the interface / implementation
    bool infoFits = true; // every info string fits its declared buffer
};

// what the external-variable callback returns for each variable index in the first / second step (C20); without a
// plan the callback returns 100 + index and there is no second step
struct ExtPlan
{
    std::map<long, std::array<double, 2>> values;
};

GenRun runGeneratedC(const std::string &interfaceCode, const std::string &implementationCode, const ExtPlan *plan = nullptr);
GenRun runGeneratedPython(const std::string &implementationCode, const ExtPlan *plan = nullptr);
J genRunToJson(const GenRun &r);
std::string treeToMathml(const J &tree); // Expr.tla trees -> content MathML (cellml:units="dimensionless" on cn)
