// Driver "services" (C12, C15, parts of C01/C07): sequences of service calls (parse, print, validate,
// analyse, generate, resolve, flatten, annotate) over a pool of documents. After each call it logs the
// result digest, whether the result is a "failing result", the logger observation (public getters), the
// hook-level logger operations performed during the call, and digests of the inputs before and after.
#include "core.h"
#include "pool.h"

#include <fstream>
#include <libxml/parser.h>
#include <sys/stat.h>
#include <unistd.h>

#ifdef LIBCELLML_VERIF
#    include "verifhooks.h"
#endif

using namespace libcellml;
std::string ruleName(const IssuePtr &issue);

static std::vector<J> gHookOps;
#ifdef LIBCELLML_VERIF
static void hookFn(const void *logger, const char *op, int level, size_t index, size_t n, size_t ne, size_t nw, size_t nm)
{
    J e = J::obj();
    char buf[32];
    snprintf(buf, sizeof buf, "%p", logger);
    static const char *lv[] = {"E", "W", "M"};
    e.set("e", "log").set("id", std::string(buf)).set("op", op).set("lv", level >= 0 && level <= 2 ? lv[level] : "none");
    e.set("idx", J(index)).set("n", J(n)).set("ne", J(ne)).set("nw", J(nw)).set("nm", J(nm));
    gHookOps.push_back(e);
}
#endif

static std::string gDir;
static std::string issuesDigest(const LoggerPtr &lg)
{
    std::string s;
    for (size_t i = 0; i < lg->issueCount(); ++i) {
        auto is = lg->issue(i);
        std::string d = is->description();
        size_t p;
        while (!gDir.empty() && (p = d.find(gDir)) != std::string::npos) {
            d.replace(p, gDir.size(), "DIR"); // the scratch directory differs between scenarios
        }
        s += std::to_string(static_cast<int>(is->level())) + "|" + ruleName(is) + "|" + d + "\n";
    }
    return sha1ish(s);
}

static std::string exactMath(const ModelPtr &m)
{
    std::string s;
    std::function<void(const ComponentPtr &)> walk = [&](const ComponentPtr &c) {
        s += c->name() + ":" + c->math() + "\n";
        for (size_t i = 0; i < c->resetCount(); ++i) {
            s += c->reset(i)->testValue() + "|" + c->reset(i)->resetValue() + "\n";
        }
        for (size_t i = 0; i < c->componentCount(); ++i) {
            walk(c->component(i));
        }
    };
    if (m) {
        for (size_t i = 0; i < m->componentCount(); ++i) {
            walk(m->component(i));
        }
    }
    return s;
}

static std::string contentDigest(const ModelPtr &m)
{
    if (!m) {
        return "null";
    }
    return sha1ish(contentOf(m).dump() + "#" + exactMath(m));
}

// the models linked to the import sources of m (what resolveImports attaches) are reachable from m through public getters:
// they are part of what a call on m may depend on and must leave unchanged
static void linkedModels(const ModelPtr &m, std::vector<ModelPtr> &seen, std::string &out, int depth)
{
    if (!m || depth > 6) {
        return;
    }
    std::vector<ImportSourcePtr> sources;
    for (size_t i = 0; i < m->unitsCount(); ++i) {
        if (m->units(i)->isImport()) {
            sources.push_back(m->units(i)->importSource());
        }
    }
    std::function<void(const ComponentPtr &)> walk = [&](const ComponentPtr &c) {
        if (c->isImport()) {
            sources.push_back(c->importSource());
        }
        for (size_t i = 0; i < c->componentCount(); ++i) {
            walk(c->component(i));
        }
    };
    for (size_t i = 0; i < m->componentCount(); ++i) {
        walk(m->component(i));
    }
    for (auto &is : sources) {
        auto lm = is ? is->model() : nullptr;
        if (lm && std::find(seen.begin(), seen.end(), lm) == seen.end()) {
            seen.push_back(lm);
            out += "@" + is->url() + "=" + contentDigest(lm);
            linkedModels(lm, seen, out, depth + 1);
        }
    }
}

static std::string modelDigest(const ModelPtr &m)
{
    if (!m) {
        return "null";
    }
    std::vector<ModelPtr> seen = {m};
    std::string linked;
    linkedModels(m, seen, linked, 0);
    return linked.empty() ? contentDigest(m) : sha1ish(contentDigest(m) + linked);
}

static int keepBlanks()
{
    int old = xmlKeepBlanksDefault(1);
    xmlKeepBlanksDefault(old);
    return old;
}

static std::string amDigest(const AnalyserModelPtr &am)
{
    if (!am) {
        return "null";
    }
    std::string s = AnalyserModel::typeAsString(am->type()) + ";";
    if (am->voi()) {
        s += "voi=" + am->voi()->variable()->name() + ";";
    }
    for (size_t i = 0; i < am->stateCount(); ++i) {
        s += "s:" + am->state(i)->variable()->name() + ";";
    }
    for (size_t i = 0; i < am->variableCount(); ++i) {
        s += "v:" + am->variable(i)->variable()->name() + ":" + AnalyserVariable::typeAsString(am->variable(i)->type()) + ";";
    }
    for (size_t i = 0; i < am->equationCount(); ++i) {
        s += "e:" + AnalyserEquation::typeAsString(am->equation(i)->type()) + ";";
    }
    return sha1ish(s);
}

struct Session
{
    ModelPtr m;
    std::string mText = "none";
    ModelPtr flat;
    AnalyserModelPtr am;
    std::string amSource = "none"; // digest of the model the analyser model was made from
    ParserPtr P[2]; // reused instances, strict / permissive
    ValidatorPtr V;
    AnalyserPtr A;
    ImporterPtr I[2];
    PrinterPtr PR;
    AnnotatorPtr AN;
    GeneratorPtr G;
    std::string dir;
};

static std::string makeDir()
{
    char tmpl[] = "/tmp/vsvcXXXXXX";
    std::string d = mkdtemp(tmpl);
    for (auto &kv : poolFiles()) {
        std::ofstream(d + "/" + kv.first) << kv.second;
    }
    return d;
}

static void rmDir(const std::string &d)
{
    for (auto &kv : poolFiles()) {
        unlink((d + "/" + kv.first).c_str());
    }
    rmdir(d.c_str());
}

static void services(const J &sc, Emitter &out)
{
#ifdef LIBCELLML_VERIF
    verif::setLoggerHook(hookFn);
#endif
    gHookOps.clear();
    Session s;
    s.dir = makeDir();
    gDir = s.dir;
    for (auto &c : sc["cmds"].a) {
        std::string op = c["op"].str();
        bool fresh = c["inst"].str("fresh") == "fresh";
        bool strict = c["strict"].boolean(true);
        J ev = J::obj();
        ev.set("e", "svc").set("c", c).set("fresh", J(fresh));
        std::string inBefore = modelDigest(s.m);
        std::string key = op;
        std::string res;
        bool fail = false;
        bool applicable = true;
        LoggerPtr lg;
        int kbBefore = keepBlanks();
        if (op == "parse") {
            auto &slot = s.P[strict ? 0 : 1];
            ParserPtr p = fresh ? Parser::create(strict) : (slot ? slot : (slot = Parser::create(strict)));
            std::string text = poolTexts().at(c["text"].str());
            inBefore = "none";
            auto model = p->parseModel(text);
            s.m = model;
            s.mText = c["text"].str();
            s.am = nullptr;
            s.amSource = "none";
            s.flat = nullptr;
            key += "|" + c["text"].str() + "|" + (strict ? "strict" : "permissive");
            res = modelDigest(model) + "/" + issuesDigest(p);
            fail = model == nullptr;
            lg = p;
        } else if (op == "validate") {
            ValidatorPtr v = fresh ? Validator::create() : (s.V ? s.V : (s.V = Validator::create()));
            v->validateModel(s.m);
            key += "|" + inBefore;
            res = issuesDigest(v);
            lg = v;
        } else if (op == "analyse") {
            AnalyserPtr a = fresh ? Analyser::create() : (s.A ? s.A : (s.A = Analyser::create()));
            a->analyseModel(s.m);
            s.am = a->model();
            s.amSource = inBefore;
            key += "|" + inBefore;
            res = amDigest(s.am) + "/" + issuesDigest(a);
            auto t = s.am ? s.am->type() : AnalyserModel::Type::UNKNOWN;
            fail = t == AnalyserModel::Type::INVALID || t == AnalyserModel::Type::UNDERCONSTRAINED || t == AnalyserModel::Type::OVERCONSTRAINED || t == AnalyserModel::Type::UNSUITABLY_CONSTRAINED;
            lg = a;
        } else if (op == "edit") {
            // a documented modification of the current model (like assignIds): in component c the variable k is taken out,
            // a new constant a0 is added and k put back after it (so that k's position changes while the Variable object stays
            // the same), and the equation becomes dx/dt = a0 * k * 3
            bool done = false;
            if (s.m && s.m->component("c") && s.m->component("c")->variable("k") && !s.m->component("c")->variable("a0")) {
                auto comp = s.m->component("c");
                auto k = comp->takeVariable("k");
                auto a0 = Variable::create("a0");
                a0->setUnits("dimensionless");
                a0->setInitialValue("5");
                comp->addVariable(a0);
                comp->addVariable(k);
                comp->setMath("<math xmlns=\"http://www.w3.org/1998/Math/MathML\" xmlns:cellml=\"http://www.cellml.org/cellml/2.0#\"><apply><eq/><apply><diff/><bvar><ci>t</ci></bvar><ci>x</ci></apply>"
                              "<apply><times/><ci>a0</ci><ci>k</ci><cn cellml:units=\"per_s\">3</cn></apply></apply></math>");
                done = true;
            }
            key += "|" + inBefore;
            res = std::string(done ? "edited" : "nothing") + "/" + modelDigest(s.m);
            inBefore = modelDigest(s.m); // this call is meant to modify the model
        } else if (op == "generate") {
            GeneratorPtr g = fresh ? Generator::create() : (s.G ? s.G : (s.G = Generator::create()));
            g->setProfile(GeneratorProfile::create(c["profile"].str("c") == "py" ? GeneratorProfile::Profile::PYTHON : GeneratorProfile::Profile::C));
            g->setModel(s.am);
            key += "|" + c["profile"].str("c") + "|" + s.amSource + "|" + amDigest(s.am);
            res = sha1ish(g->interfaceCode() + "####" + g->implementationCode());
        } else if (op == "print") {
            PrinterPtr p = fresh ? Printer::create() : (s.PR ? s.PR : (s.PR = Printer::create()));
            bool autoIds = c["auto"].boolean(false);
            std::string text = p->printModel(s.m, autoIds);
            key += std::string("|") + (autoIds ? "auto" : "plain") + "|" + inBefore;
            res = sha1ish(text) + "/" + issuesDigest(p);
            lg = p;
        } else if (op == "resolve") {
            auto &slot = s.I[strict ? 0 : 1];
            ImporterPtr im = fresh ? Importer::create(strict) : (slot ? slot : (slot = Importer::create(strict)));
            std::string contentBefore = contentDigest(s.m);
            bool ok = s.m ? im->resolveImports(s.m, s.dir + "/") : false;
            if (!s.m) {
                ModelPtr nul;
                ok = im->resolveImports(nul, s.dir + "/");
            }
            // resolution links import sources to library models: part of the documented effect, not hidden state
            key += "|" + inBefore + (strict ? "|strict" : "|permissive") + (fresh ? "" : "|reused:" + std::to_string(im->libraryCount() > 0));
            res = std::string(ok ? "true" : "false") + "/" + std::to_string(s.m ? s.m->hasUnresolvedImports() : -1) + "/" + issuesDigest(im);
            fail = !ok;
            lg = im;
            // resolution attaches models to the import sources (documented effect); the content of the model itself must be unchanged
            inBefore = contentDigest(s.m) == contentBefore ? modelDigest(s.m) : "content changed by resolveImports";
        } else if (op == "flatten") {
            auto &slot = s.I[strict ? 0 : 1];
            ImporterPtr im = fresh ? Importer::create(strict) : (slot ? slot : (slot = Importer::create(strict)));
            bool unresolved = s.m && s.m->hasUnresolvedImports();
            s.flat = im->flattenModel(s.m);
            key += "|" + inBefore + (strict ? "|strict" : "|permissive") + "|unresolved:" + std::to_string(unresolved);
            res = modelDigest(s.flat) + "/" + issuesDigest(im);
            fail = s.flat == nullptr;
            lg = im;
        } else if (op == "assignIds") {
            AnnotatorPtr an = fresh ? Annotator::create() : (s.AN ? s.AN : (s.AN = Annotator::create()));
            an->setModel(s.m);
            bool ok = an->assignAllIds();
            key += "|" + inBefore;
            res = std::string(ok ? "true" : "false") + "/" + modelDigest(s.m) + "/" + issuesDigest(an);
            // assignAllIds() returns false both when it cannot work (no model: an issue is due) and when every item already
            // has an id (documented: "true if any identifiers have been changed"); only the former is a failing result
            fail = !ok && s.m == nullptr;
            lg = an;
            inBefore = modelDigest(s.m); // this call is documented to modify the model
        } else if (op == "lookup") {
            AnnotatorPtr an = fresh ? Annotator::create() : (s.AN ? s.AN : (s.AN = Annotator::create()));
            an->setModel(s.m);
            auto item = an->item(c["id"].str());
            key += "|" + c["id"].str() + "|" + inBefore;
            bool found = item && item->type() != CellmlElementType::UNDEFINED;
            res = std::string(found ? "found" : "notfound") + "/" + issuesDigest(an);
            fail = !found;
            lg = an;
        } else if (op == "lookupIdx") { // item(id) (index < 0) or item(id, index): unique, duplicated and unknown ids, indices in and out of range
            AnnotatorPtr an = fresh ? Annotator::create() : (s.AN ? s.AN : (s.AN = Annotator::create()));
            an->setModel(s.m);
            long idx = static_cast<long>(c["index"].num());
            auto item = idx < 0 ? an->item(c["id"].str()) : an->item(c["id"].str(), static_cast<size_t>(idx));
            key += "|" + c["id"].str() + "|" + std::to_string(idx) + "|" + inBefore;
            bool found = item && item->type() != CellmlElementType::UNDEFINED;
            res = std::string(found ? "found" : "notfound") + "/" + issuesDigest(an);
            fail = !found;
            lg = an;
        } else if (op == "assignUnowned") { // an item that does not belong to the annotator's model
            AnnotatorPtr an = fresh ? Annotator::create() : (s.AN ? s.AN : (s.AN = Annotator::create()));
            an->setModel(s.m);
            auto unowned = Variable::create("unowned");
            std::string r = an->assignId(unowned);
            key += "|" + inBefore;
            res = std::string(r.empty() ? "none" : "assigned") + "/" + issuesDigest(an);
            fail = r.empty();
            lg = an;
        } else if (op == "assignNullModel") {
            AnnotatorPtr an = Annotator::create();
            ModelPtr none;
            bool ok = an->assignAllIds(none);
            res = std::string(ok ? "true" : "false") + "/" + issuesDigest(an);
            fail = !ok;
            lg = an;
        } else if (op == "lookupExpired") { // the model handed to the annotator is destroyed before the lookup
            AnnotatorPtr an = Annotator::create();
            {
                auto temp = Parser::create()->parseModel(poolTexts().at("dupids"));
                an->setModel(temp);
            }
            auto item = an->item("uq");
            bool found = item && item->type() != CellmlElementType::UNDEFINED;
            res = std::string(found ? "found" : "notfound") + "/" + issuesDigest(an);
            fail = !found;
            lg = an;
        } else {
            applicable = false;
        }
        (void)applicable;
        // hook-level logger operations of this call, then the call itself
        for (auto &h : gHookOps) {
            out.emit(h);
        }
        gHookOps.clear();
        ev.set("key", key).set("res", res).set("fail", J(fail));
        ev.set("inBefore", inBefore).set("inAfter", op == "parse" ? std::string("none") : modelDigest(s.m));
        ev.set("kbBefore", J(kbBefore)).set("kbAfter", J(keepBlanks()));
        if (lg) {
            ev.set("log", loggerObs(lg));
        }
        out.emit(ev);
    }
    rmDir(s.dir);
#ifdef LIBCELLML_VERIF
    verif::setLoggerHook(nullptr);
#endif
}

static RegisterDriver reg("services", services);

// Driver "enums" (C15): every value of the ReferenceRule and element-type enumerations.
static void enums(const J &, Emitter &out)
{
#ifdef LIBCELLML_VERIF
    int last = static_cast<int>(Issue::ReferenceRule::ANNOTATOR_NULL_MODEL);
    for (int r = 0; r <= last; ++r) {
        for (int lv = 0; lv < 3; ++lv) {
            auto issue = verif::createIssue(static_cast<Issue::ReferenceRule>(r), static_cast<Issue::Level>(lv));
            J ev = J::obj();
            std::string url = issue->url(); // throws if the rule has no entry
            std::string heading = issue->referenceHeading();
            ev.set("e", "rule").set("rule", J(r)).set("lv", J(lv)).set("name", ruleName(issue)).set("urlLen", J(url.size())).set("headingLen", J(heading.size()));
            ev.set("levelOk", J(static_cast<int>(issue->level()) == lv)).set("ruleOk", J(static_cast<int>(issue->referenceRule()) == r));
            ev.set("itemUndefined", J(issue->item() && issue->item()->type() == CellmlElementType::UNDEFINED));
            out.emit(ev);
        }
    }
#endif
    for (int t = 0; t <= static_cast<int>(CellmlElementType::VARIABLE); ++t) {
        J ev = J::obj();
        ev.set("e", "etype").set("t", J(t)).set("name", cellmlElementTypeAsString(static_cast<CellmlElementType>(t)));
        out.emit(ev);
    }
}
static RegisterDriver regEnums("enums", enums);
