// Driver "importer" (C07): an abstract world of files (TLC-generated, with one fault applied) is materialised in a
// scratch directory; resolveImports / flattenModel are observed; then the fault is repaired and resolution retried.
#include "core.h"

#include <dirent.h>
#include <fstream>
#include <sys/stat.h>
#include <unistd.h>

using namespace libcellml;
std::string ruleName(const IssuePtr &issue);

static const char *NS = "http://www.cellml.org/cellml/2.0#";

std::string fileText(const J &f, const std::string &modelName, bool grouped)
{
    std::string s = "<?xml version=\"1.0\" encoding=\"UTF-8\"?>\n<model xmlns=\"" + std::string(NS) + "\" xmlns:xlink=\"http://www.w3.org/1999/xlink\" name=\"" + modelName + "\">\n";
    if (grouped) { // one import element per imported file: the entities it lists share one ImportSource object
        std::vector<std::string> order;
        std::map<std::string, std::string> body;
        auto add = [&](const std::string &file, const std::string &item) {
            if (body.find(file) == body.end()) {
                order.push_back(file);
            }
            body[file] += item;
        };
        for (auto &c : f["comps"].a) {
            if (c["kind"].str() == "import") {
                add(c["file"].str(), "<component name=\"" + c["name"].str() + "\" component_ref=\"" + c["ref"].str() + "\"/>");
            }
        }
        for (auto &u : f["units"].a) {
            if (u["kind"].str() == "import") {
                add(u["file"].str(), "<units name=\"" + u["name"].str() + "\" units_ref=\"" + u["ref"].str() + "\"/>");
            }
        }
        for (auto &file : order) {
            s += "  <import xlink:href=\"" + file + ".cellml\">" + body[file] + "</import>\n";
        }
    }
    for (auto &u : f["units"].a) {
        std::string k = u["kind"].str();
        if (k == "import") {
            if (!grouped) {
                s += "  <import xlink:href=\"" + u["file"].str() + ".cellml\"><units name=\"" + u["name"].str() + "\" units_ref=\"" + u["ref"].str() + "\"/></import>\n";
            }
        } else if (k == "ref") {
            s += "  <units name=\"" + u["name"].str() + "\"><unit units=\"" + u["ref"].str() + "\" prefix=\"milli\"/></units>\n";
        } else {
            s += "  <units name=\"" + u["name"].str() + "\"/>\n";
        }
    }
    std::string enc;
    for (auto &c : f["comps"].a) {
        if (c["kind"].str() == "import") {
            if (!grouped) {
                s += "  <import xlink:href=\"" + c["file"].str() + ".cellml\"><component name=\"" + c["name"].str() + "\" component_ref=\"" + c["ref"].str() + "\"/></import>\n";
            }
        } else {
            std::string un = c["units"].str("none") == "none" ? "dimensionless" : c["units"].str();
            std::string second;
            if (c["units2"].str("none") != "none") {
                second = "<variable name=\"v2\" units=\"" + c["units2"].str() + "\" initial_value=\"2\" interface=\"public\"/>";
            }
            s += "  <component name=\"" + c["name"].str() + "\"><variable name=\"v\" units=\"" + un + "\" initial_value=\"1\" interface=\"public\"/>" + second + "</component>\n";
            if (c["kids"].size() > 0) {
                enc += "<component_ref component=\"" + c["name"].str() + "\">";
                for (auto &k : c["kids"].a) {
                    enc += "<component_ref component=\"" + k.str() + "\"/>";
                }
                enc += "</component_ref>";
            }
        }
    }
    if (!enc.empty()) {
        s += "  <encapsulation>" + enc + "</encapsulation>\n";
    }
    s += "</model>\n";
    return s;
}

void writeWorld(const std::string &dir, const J &files, const J &intact, bool grouped)
{
    for (auto &kv : files.o) {
        if (kv.first == "root") {
            continue;
        }
        std::string path = dir + "/" + kv.first + ".cellml";
        unlink(path.c_str());
        std::string st = kv.second["status"].str();
        if (st == "missing") {
            continue;
        }
        std::string text;
        if (st == "ok") {
            text = fileText(kv.second, kv.first, grouped);
        } else if (st == "garbage0") {
            text = "";
        } else if (st == "garbage1") {
            text = "<";
        } else if (st == "garbage2") { // the intact file cut in the middle
            std::string whole = fileText(intact[kv.first], kv.first, grouped);
            text = whole.substr(0, whole.size() / 2);
        } else if (st == "garbage3") {
            text = "just some text, no markup";
        } else {
            text = "<?xml version=\"1.0\"?>\n<html xmlns=\"http://www.w3.org/1999/xhtml\"><body><p>not CellML</p></body></html>\n";
        }
        std::ofstream(path) << text;
    }
}

static void rmTree(const std::string &dir)
{
    if (DIR *d = opendir(dir.c_str())) {
        while (auto *e = readdir(d)) {
            std::string n = e->d_name;
            if (n != "." && n != "..") {
                unlink((dir + "/" + n).c_str());
            }
        }
        closedir(d);
    }
    rmdir(dir.c_str());
}

static J issueList(const LoggerPtr &lg)
{
    J r = J::arr();
    for (size_t i = 0; i < lg->issueCount(); ++i) {
        auto is = lg->issue(i);
        J one = J::obj();
        one.set("lv", is->level() == Issue::Level::ERROR ? "E" : (is->level() == Issue::Level::WARNING ? "W" : "M"));
        one.set("rule", ruleName(is)).set("type", is->item() ? cellmlElementTypeAsString(is->item()->type()) : "NULL");
        r.push(one);
    }
    return r;
}

static void importer(const J &sc, Emitter &out)
{
    char tmpl[] = "/tmp/vimpXXXXXX";
    std::string dir = mkdtemp(tmpl);
    const J &files = sc["files"];
    const J &intact = sc["repaired"];
    bool strict = sc["strict"].boolean(true);
    bool grouped = sc["grouped"].boolean(false);
    writeWorld(dir, files, intact, grouped);
    J ev = J::obj();
    ev.set("e", "resolve").set("world", sc["world"]).set("fault", sc["fault"]).set("strict", J(strict)).set("files", files).set("repaired", intact).set("grouped", J(grouped));
    auto root = Parser::create(true)->parseModel(fileText(files["root"], "root", grouped));
    std::string rootBefore = contentOf(root).dump();
    auto imp = Importer::create(strict);
    bool r1 = imp->resolveImports(root, dir + "/");
    ev.set("r1", J(r1)).set("unresolved1", J(root->hasUnresolvedImports())).set("issues1", issueList(imp)).set("log1", loggerObs(imp));
    ev.set("rootUnchanged", J(contentOf(root).dump() == rootBefore));
    auto flat = imp->flattenModel(root);
    ev.set("flatNull1", J(flat == nullptr)).set("flatIssues1", J(imp->issueCount())).set("log1f", loggerObs(imp));
    if (flat) {
        ev.set("flatHasImports", J(flat->hasImports()));
    }
    // repair the fault; the importer must still be usable
    writeWorld(dir, intact, intact, grouped);
    // retry with the same importer on the same, partly linked model: whatever the answer (the library may hold the faulty
    // file), "true" must mean resolved
    bool r3 = imp->resolveImports(root, dir + "/");
    ev.set("r3", J(r3)).set("unresolved3", J(root->hasUnresolvedImports())).set("issues3", issueList(imp)).set("log3", loggerObs(imp));
    auto flat3 = imp->flattenModel(root);
    ev.set("flatNull3", J(flat3 == nullptr));
    imp->removeAllModels();
    auto root2 = Parser::create(true)->parseModel(fileText(intact["root"], "root", grouped));
    bool r2 = imp->resolveImports(root2, dir + "/");
    ev.set("r2", J(r2)).set("unresolved2", J(root2->hasUnresolvedImports())).set("issues2", issueList(imp)).set("log2", loggerObs(imp));
    auto flat2 = imp->flattenModel(root2);
    ev.set("flatNull2", J(flat2 == nullptr));
    out.emit(ev);
    rmTree(dir);
}

static RegisterDriver reg("importer", importer);
