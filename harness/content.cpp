// Canonical content record of a model through public getters only (independent of the Printer),
// plus small shared helpers (token map for characters TLC's JSON reader cannot carry, digests).
#include "core.h"

#include <algorithm>
#include <cmath>
#include <cstring>
#include <set>

using namespace libcellml;

// ------------------------------------------------------------------ named tokens
static const std::pair<const char *, const char *> TOKENS[] = {
    {"{AMP}", "&"},
    {"{LT}", "<"},
    {"{GT}", ">"},
    {"{QUOT}", "\""},
    {"{APOS}", "'"},
    {"{EACUTE}", "\xc3\xa9"},
    {"{NL}", "\n"},
    {"{TAB}", "\t"},
};

std::string untok(const std::string &s)
{
    std::string r = s;
    for (auto &t : TOKENS) {
        size_t p = 0;
        while ((p = r.find(t.first, p)) != std::string::npos) {
            r.replace(p, strlen(t.first), t.second);
            p += strlen(t.second);
        }
    }
    return r;
}

std::string tok(const std::string &s)
{
    std::string r = s;
    for (auto &t : TOKENS) {
        size_t p = 0;
        while ((p = r.find(t.second, p)) != std::string::npos) {
            r.replace(p, strlen(t.second), t.first);
            p += strlen(t.first);
        }
    }
    // anything else outside printable ASCII becomes {Xhh}
    std::string out;
    for (unsigned char c : r) {
        if (c < 0x20 || c >= 0x7f) {
            char buf[8];
            snprintf(buf, sizeof buf, "{X%02x}", c);
            out += buf;
        } else {
            out += static_cast<char>(c);
        }
    }
    return out;
}

std::string fmtDouble(double d)
{
    if (std::isnan(d)) {
        return "nan";
    }
    // shortest representation that reads back as the same double (a projection that rounded to 15 digits would hide
    // a loss of precision in the library)
    char buf[64];
    for (int prec = 15; prec <= 17; ++prec) {
        snprintf(buf, sizeof buf, "%.*g", prec, d);
        if (strtod(buf, nullptr) == d) {
            break;
        }
    }
    return buf;
}

// whitespace-normalised math: whitespace between tags removed, runs collapsed
std::string normMath(const std::string &m)
{
    std::string r;
    bool inTag = false;
    bool pendingSpace = false;
    for (char c : m) {
        if (c == '<') {
            inTag = true;
            pendingSpace = false; // whitespace before a tag is insignificant
            r += c;
        } else if (c == '>') {
            inTag = false;
            r += c;
            pendingSpace = false;
        } else if (isspace(static_cast<unsigned char>(c))) {
            pendingSpace = true;
        } else {
            if (pendingSpace && !r.empty() && r.back() != '>') {
                r += ' ';
            }
            pendingSpace = false;
            r += c;
        }
    }
    (void)inTag;
    return r;
}

// FNV-1a 64 bit, printed as hex: a digest, not a security hash
std::string sha1ish(const std::string &s)
{
    unsigned long long h = 1469598103934665603ULL;
    for (unsigned char c : s) {
        h ^= c;
        h *= 1099511628211ULL;
    }
    char buf[32];
    snprintf(buf, sizeof buf, "%016llx", h);
    return buf;
}

std::string interfaceStr(const VariablePtr &v)
{
    return v->interfaceType();
}

static std::string orNone(const std::string &s)
{
    return s.empty() ? "none" : tok(s);
}

static J unitsRecord(const UnitsPtr &u, const std::map<const ImportSource *, int> &impIdx)
{
    J r = J::obj();
    r.set("name", orNone(u->name())).set("id", orNone(u->id()));
    (void)impIdx;
    if (u->isImport()) {
        r.set("imp", orNone(u->importSource()->url())).set("impId", orNone(u->importSource()->id()));
        r.set("ref", orNone(u->importReference()));
    } else {
        r.set("imp", "none").set("impId", "none").set("ref", "none");
    }
    std::vector<std::string> kids;
    for (size_t i = 0; i < u->unitCount(); ++i) {
        J k = J::obj();
        k.set("ref", orNone(u->unitAttributeReference(i)));
        k.set("prefix", orNone(u->unitAttributePrefix(i)));
        k.set("exp", fmtDouble(u->unitAttributeExponent(i)));
        k.set("mult", fmtDouble(u->unitAttributeMultiplier(i)));
        k.set("id", orNone(u->unitId(i)));
        kids.push_back(k.dump());
    }
    std::sort(kids.begin(), kids.end());
    J ka = J::arr();
    for (auto &k : kids) {
        ka.push(parseJson(k));
    }
    r.set("kids", ka);
    return r;
}

static void collectComponents(const ComponentPtr &c, const std::string &parent, std::vector<std::pair<std::string, J>> &out, std::vector<VariablePtr> &allVars)
{
    J r = J::obj();
    r.set("name", orNone(c->name())).set("id", orNone(c->id())).set("encId", orNone(c->encapsulationId()));
    if (c->isImport()) {
        r.set("imp", orNone(c->importSource()->url())).set("impId", orNone(c->importSource()->id())).set("ref", orNone(c->importReference()));
    } else {
        r.set("imp", "none").set("impId", "none").set("ref", "none");
    }
    r.set("parent", parent.empty() ? "none" : tok(parent));
    r.set("math", orNone(normMath(c->math())));
    std::vector<std::string> vs;
    for (size_t i = 0; i < c->variableCount(); ++i) {
        auto v = c->variable(i);
        allVars.push_back(v);
        J vr = J::obj();
        vr.set("name", orNone(v->name())).set("id", orNone(v->id()));
        vr.set("units", v->units() ? orNone(v->units()->name()) : "none");
        vr.set("init", orNone(v->initialValue())).set("iface", orNone(v->interfaceType()));
        vs.push_back(vr.dump());
    }
    std::sort(vs.begin(), vs.end());
    J va = J::arr();
    for (auto &v : vs) {
        va.push(parseJson(v));
    }
    r.set("vars", va);
    std::vector<std::string> rs;
    for (size_t i = 0; i < c->resetCount(); ++i) {
        auto rst = c->reset(i);
        J rr = J::obj();
        rr.set("order", rst->isOrderSet() ? J(std::to_string(rst->order())) : J("unset"));
        rr.set("id", orNone(rst->id()));
        rr.set("var", rst->variable() ? orNone(rst->variable()->name()) : "none");
        rr.set("tvar", rst->testVariable() ? orNone(rst->testVariable()->name()) : "none");
        rr.set("tv", orNone(normMath(rst->testValue()))).set("tvid", orNone(rst->testValueId()));
        rr.set("rv", orNone(normMath(rst->resetValue()))).set("rvid", orNone(rst->resetValueId()));
        rs.push_back(rr.dump());
    }
    std::sort(rs.begin(), rs.end());
    J ra = J::arr();
    for (auto &x : rs) {
        ra.push(parseJson(x));
    }
    r.set("resets", ra);
    out.emplace_back(c->name(), r);
    for (size_t i = 0; i < c->componentCount(); ++i) {
        collectComponents(c->component(i), c->name(), out, allVars);
    }
}

J contentOf(const ModelPtr &m)
{
    J r = J::obj();
    if (!m) {
        r.set("null", J(true));
        return r;
    }
    r.set("name", orNone(m->name())).set("id", orNone(m->id())).set("encId", orNone(m->encapsulationId()));
    std::map<const ImportSource *, int> impIdx;
    std::vector<std::string> us;
    for (size_t i = 0; i < m->unitsCount(); ++i) {
        us.push_back(unitsRecord(m->units(i), impIdx).dump());
    }
    std::sort(us.begin(), us.end());
    J ua = J::arr();
    for (auto &u : us) {
        ua.push(parseJson(u));
    }
    r.set("units", ua);
    std::vector<std::pair<std::string, J>> comps;
    std::vector<VariablePtr> allVars;
    for (size_t i = 0; i < m->componentCount(); ++i) {
        collectComponents(m->component(i), "", comps, allVars);
    }
    std::sort(comps.begin(), comps.end(), [](const std::pair<std::string, J> &a, const std::pair<std::string, J> &b) { return a.first < b.first; });
    J ca = J::arr();
    for (auto &c : comps) {
        ca.push(c.second);
    }
    r.set("comps", ca);
    // connections: component pairs (c1 < c2 by name) with their map_variables
    std::map<std::pair<std::string, std::string>, std::pair<std::string, std::vector<std::string>>> conns;
    std::set<const Variable *> inModel;
    for (auto &v : allVars) {
        inModel.insert(v.get());
    }
    for (auto &v : allVars) {
        for (size_t i = 0; i < v->equivalentVariableCount(); ++i) {
            auto w = v->equivalentVariable(i);
            auto pc = std::dynamic_pointer_cast<Component>(v->parent());
            auto qc = w ? std::dynamic_pointer_cast<Component>(w->parent()) : nullptr;
            std::string cn1 = pc ? pc->name() : "";
            std::string cn2 = qc ? qc->name() : "?";
            if (!inModel.count(w.get())) {
                cn2 = "?outside";
            }
            std::string v1 = v->name();
            std::string v2 = w->name();
            if (std::make_pair(cn2, v2) < std::make_pair(cn1, v1)) {
                continue; // each pair once, from its smaller end
            }
            auto key = std::make_pair(cn1, cn2);
            J mp = J::obj();
            mp.set("v1", orNone(v1)).set("v2", orNone(v2)).set("id", orNone(Variable::equivalenceMappingId(v, w)));
            conns[key].second.push_back(mp.dump());
            std::string cid = Variable::equivalenceConnectionId(v, w);
            if (!cid.empty()) {
                conns[key].first = cid;
            }
        }
    }
    J cna = J::arr();
    for (auto &kv : conns) {
        J c = J::obj();
        c.set("c1", orNone(kv.first.first)).set("c2", orNone(kv.first.second)).set("id", orNone(kv.second.first));
        std::sort(kv.second.second.begin(), kv.second.second.end());
        J ma = J::arr();
        for (auto &x : kv.second.second) {
            ma.push(parseJson(x));
        }
        c.set("maps", ma);
        cna.push(c);
    }
    r.set("conns", cna);
    // import sources (distinct objects reachable from imported items), as (url, id) bag
    std::set<const ImportSource *> seen;
    std::vector<std::string> imps;
    std::function<void(const ImportSourcePtr &)> addImp = [&](const ImportSourcePtr &is) {
        if (is && seen.insert(is.get()).second) {
            J x = J::obj();
            x.set("url", orNone(is->url())).set("id", orNone(is->id()));
            imps.push_back(x.dump());
        }
    };
    for (size_t i = 0; i < m->unitsCount(); ++i) {
        if (m->units(i)->isImport()) {
            addImp(m->units(i)->importSource());
        }
    }
    std::function<void(const ComponentPtr &)> walk = [&](const ComponentPtr &c) {
        if (c->isImport()) {
            addImp(c->importSource());
        }
        for (size_t i = 0; i < c->componentCount(); ++i) {
            walk(c->component(i));
        }
    };
    for (size_t i = 0; i < m->componentCount(); ++i) {
        walk(m->component(i));
    }
    std::sort(imps.begin(), imps.end());
    J ia = J::arr();
    for (auto &x : imps) {
        ia.push(parseJson(x));
    }
    r.set("imports", ia);
    return r;
}
