// Minimal JSON value, parser and writer for the executor (scenario in, trace out).
#pragma once
#include <cstdio>
#include <cstdlib>
#include <map>
#include <memory>
#include <sstream>
#include <stdexcept>
#include <string>
#include <utility>
#include <vector>

struct J
{
    enum Kind
    {
        NUL,
        BOOL,
        INT,
        STR,
        ARR,
        OBJ
    };
    Kind k = NUL;
    bool b = false;
    long long i = 0;
    std::string s;
    std::vector<J> a;
    std::vector<std::pair<std::string, J>> o; // insertion ordered

    J() = default;
    J(bool v)
        : k(BOOL)
        , b(v)
    {
    }
    J(int v)
        : k(INT)
        , i(v)
    {
    }
    J(long long v)
        : k(INT)
        , i(v)
    {
    }
    J(size_t v)
        : k(INT)
        , i(static_cast<long long>(v))
    {
    }
    J(const char *v)
        : k(STR)
        , s(v)
    {
    }
    J(const std::string &v)
        : k(STR)
        , s(v)
    {
    }
    static J arr()
    {
        J j;
        j.k = ARR;
        return j;
    }
    static J obj()
    {
        J j;
        j.k = OBJ;
        return j;
    }
    J &push(const J &v)
    {
        k = ARR;
        a.push_back(v);
        return *this;
    }
    J &set(const std::string &key, const J &v)
    {
        k = OBJ;
        for (auto &kv : o) {
            if (kv.first == key) {
                kv.second = v;
                return *this;
            }
        }
        o.emplace_back(key, v);
        return *this;
    }
    bool has(const std::string &key) const
    {
        for (auto &kv : o) {
            if (kv.first == key) {
                return true;
            }
        }
        return false;
    }
    const J &at(const std::string &key) const
    {
        for (auto &kv : o) {
            if (kv.first == key) {
                return kv.second;
            }
        }
        static J nul;
        return nul;
    }
    const J &operator[](const std::string &key) const
    {
        return at(key);
    }
    const J &operator[](const char *key) const
    {
        return at(key);
    }
    const J &operator[](size_t idx) const
    {
        static J nul;
        return idx < a.size() ? a[idx] : nul;
    }
    const J &operator[](int idx) const
    {
        return (*this)[static_cast<size_t>(idx)];
    }
    size_t size() const
    {
        return k == ARR ? a.size() : (k == OBJ ? o.size() : 0);
    }
    std::string str(const std::string &dflt = "") const
    {
        return k == STR ? s : dflt;
    }
    long long num(long long dflt = 0) const
    {
        return k == INT ? i : dflt;
    }
    bool boolean(bool dflt = false) const
    {
        return k == BOOL ? b : dflt;
    }

    static void esc(std::ostream &os, const std::string &v)
    {
        os << '"';
        for (unsigned char c : v) {
            switch (c) {
            case '"':
                os << "\\\"";
                break;
            case '\\':
                os << "\\\\";
                break;
            case '\n':
                os << "\\n";
                break;
            case '\r':
                os << "\\r";
                break;
            case '\t':
                os << "\\t";
                break;
            default:
                if (c < 0x20 || c >= 0x7f) {
                    char buf[8];
                    snprintf(buf, sizeof buf, "\\u%04x", c);
                    os << buf;
                } else {
                    os << c;
                }
            }
        }
        os << '"';
    }
    void write(std::ostream &os) const
    {
        switch (k) {
        case NUL:
            os << "\"none\"";
            break; // TLC's JSON reader rejects null
        case BOOL:
            os << (b ? "true" : "false");
            break;
        case INT:
            os << i;
            break;
        case STR:
            esc(os, s);
            break;
        case ARR: {
            os << '[';
            bool first = true;
            for (auto &v : a) {
                if (!first) {
                    os << ',';
                }
                first = false;
                v.write(os);
            }
            os << ']';
            break;
        }
        case OBJ: {
            os << '{';
            bool first = true;
            for (auto &kv : o) {
                if (!first) {
                    os << ',';
                }
                first = false;
                esc(os, kv.first);
                os << ':';
                kv.second.write(os);
            }
            os << '}';
            break;
        }
        }
    }
    std::string dump() const
    {
        std::ostringstream os;
        write(os);
        return os.str();
    }
};

class JParser
{
    const std::string &t;
    size_t p = 0;
    void ws()
    {
        while (p < t.size() && (t[p] == ' ' || t[p] == '\n' || t[p] == '\t' || t[p] == '\r')) {
            ++p;
        }
    }
    [[noreturn]] void fail(const char *m)
    {
        throw std::runtime_error(std::string("json: ") + m + " at " + std::to_string(p));
    }
    std::string parseStr()
    {
        std::string r;
        ++p;
        while (p < t.size() && t[p] != '"') {
            if (t[p] == '\\') {
                ++p;
                if (p >= t.size()) {
                    fail("escape");
                }
                switch (t[p]) {
                case 'n':
                    r += '\n';
                    break;
                case 't':
                    r += '\t';
                    break;
                case 'r':
                    r += '\r';
                    break;
                case 'b':
                    r += '\b';
                    break;
                case 'f':
                    r += '\f';
                    break;
                case 'u': {
                    unsigned cp = static_cast<unsigned>(strtoul(t.substr(p + 1, 4).c_str(), nullptr, 16));
                    p += 4;
                    if (cp < 0x80) {
                        r += static_cast<char>(cp);
                    } else if (cp < 0x800) {
                        r += static_cast<char>(0xC0 | (cp >> 6));
                        r += static_cast<char>(0x80 | (cp & 0x3F));
                    } else {
                        r += static_cast<char>(0xE0 | (cp >> 12));
                        r += static_cast<char>(0x80 | ((cp >> 6) & 0x3F));
                        r += static_cast<char>(0x80 | (cp & 0x3F));
                    }
                    break;
                }
                default:
                    r += t[p];
                }
                ++p;
            } else {
                r += t[p++];
            }
        }
        if (p >= t.size()) {
            fail("unterminated string");
        }
        ++p;
        return r;
    }

public:
    explicit JParser(const std::string &text)
        : t(text)
    {
    }
    J parse()
    {
        ws();
        if (p >= t.size()) {
            fail("eof");
        }
        char c = t[p];
        if (c == '{') {
            J j = J::obj();
            ++p;
            ws();
            if (t[p] == '}') {
                ++p;
                return j;
            }
            for (;;) {
                ws();
                if (t[p] != '"') {
                    fail("key");
                }
                std::string key = parseStr();
                ws();
                if (t[p] != ':') {
                    fail("colon");
                }
                ++p;
                j.o.emplace_back(key, parse());
                ws();
                if (t[p] == ',') {
                    ++p;
                    continue;
                }
                if (t[p] == '}') {
                    ++p;
                    return j;
                }
                fail("object");
            }
        }
        if (c == '[') {
            J j = J::arr();
            ++p;
            ws();
            if (t[p] == ']') {
                ++p;
                return j;
            }
            for (;;) {
                j.a.push_back(parse());
                ws();
                if (t[p] == ',') {
                    ++p;
                    continue;
                }
                if (t[p] == ']') {
                    ++p;
                    return j;
                }
                fail("array");
            }
        }
        if (c == '"') {
            return J(parseStr());
        }
        if (t.compare(p, 4, "true") == 0) {
            p += 4;
            return J(true);
        }
        if (t.compare(p, 5, "false") == 0) {
            p += 5;
            return J(false);
        }
        if (t.compare(p, 4, "null") == 0) {
            p += 4;
            return J();
        }
        size_t q = p;
        if (t[q] == '-') {
            ++q;
        }
        while (q < t.size() && isdigit(static_cast<unsigned char>(t[q]))) {
            ++q;
        }
        if (q == p) {
            fail("value");
        }
        J j(static_cast<long long>(strtoll(t.substr(p, q - p).c_str(), nullptr, 10)));
        p = q;
        return j;
    }
};

inline J parseJson(const std::string &text)
{
    return JParser(text).parse();
}
