// Driver "badargs" (C09, second sentence): one scenario = one method of a service x one kind of bad argument
// (specs/BadArgs/BadArgs.tla holds the table). A fixture is built, the observable state of the models and of the
// service is digested, the call is made with the bad value, the outcome is classified, the state digested again, and
// the service's main operation is run once more to see that it still works.
#include "core.h"

#include <sys/stat.h>
#include <unistd.h>

using namespace libcellml;

static const char *MAIN_TEXT = R"(<?xml version="1.0" encoding="UTF-8"?>
<model xmlns="http://www.cellml.org/cellml/2.0#" xmlns:cellml="http://www.cellml.org/cellml/2.0#" xmlns:xlink="http://www.w3.org/1999/xlink" name="main" id="mid">
  <import xlink:href="lib.cellml" id="isid"><component name="imp" component_ref="L" id="impid"/></import>
  <units name="u" id="uid"><unit units="second" prefix="milli" id="uiid"/></units>
  <component name="c1" id="c1id">
    <variable name="v1" units="u" initial_value="1" interface="public_and_private" id="v1id"/>
    <variable name="v2" units="u" interface="public_and_private" id="v2id"/>
    <math xmlns="http://www.w3.org/1998/Math/MathML"><apply><eq/><ci>v2</ci><apply><plus/><ci>v1</ci><cn cellml:units="u">1</cn></apply></apply></math>
    <reset variable="v1" test_variable="v2" order="1" id="rid"><test_value id="tvid"><math xmlns="http://www.w3.org/1998/Math/MathML"><cn cellml:units="u">1</cn></math></test_value><reset_value id="rvid"><math xmlns="http://www.w3.org/1998/Math/MathML"><cn cellml:units="u">0</cn></math></reset_value></reset>
  </component>
  <component name="c2" id="c2id"><variable name="w" units="u" interface="public" id="wid"/></component>
  <encapsulation id="encid"><component_ref component="c1" id="crid"><component_ref component="c2"/></component_ref></encapsulation>
  <connection component_1="c1" component_2="c2" id="connid"><map_variables variable_1="v1" variable_2="w" id="mapid"/></connection>
</model>)";

static const char *LIB_TEXT = R"(<?xml version="1.0" encoding="UTF-8"?>
<model xmlns="http://www.cellml.org/cellml/2.0#" name="lib"><component name="L"><variable name="q" units="second"/></component></model>)";

static const char *ODE_TEXT = R"(<?xml version="1.0" encoding="UTF-8"?>
<model xmlns="http://www.cellml.org/cellml/2.0#" xmlns:cellml="http://www.cellml.org/cellml/2.0#" name="ode">
  <component name="c">
    <variable name="t" units="second"/><variable name="x" units="second" initial_value="1"/><variable name="y" units="second"/><variable name="k" units="second" initial_value="3"/>
    <math xmlns="http://www.w3.org/1998/Math/MathML">
      <apply><eq/><apply><diff/><bvar><ci>t</ci></bvar><ci>x</ci></apply><apply><plus/><ci>y</ci><ci>k</ci></apply></apply>
      <apply><eq/><ci>y</ci><apply><plus/><ci>x</ci><cn cellml:units="second">2</cn></apply></apply>
    </math>
  </component>
</model>)";

static ModelPtr parse(const char *t)
{
    return Parser::create(true)->parseModel(t);
}

static std::string dig(const ModelPtr &m)
{
    return sha1ish(contentOf(m).dump());
}

// bad values of each pointer type, by kind
struct Bad
{
    ModelPtr keepAlive; // for "parentless" nothing, for "ownerDestroyed" the owner has already gone
    VariablePtr variable;
    ComponentPtr component;
    UnitsPtr units;
    ResetPtr reset;
};

static Bad makeBad(const std::string &kind)
{
    Bad b;
    if (kind == "parentless") {
        b.variable = Variable::create("pv");
        b.component = Component::create("pc");
        b.units = Units::create("pu");
        b.reset = Reset::create();
    } else if (kind == "ownerDestroyed") {
        auto m = parse(MAIN_TEXT);
        b.component = m->component("c1");
        b.variable = b.component->variable("v1");
        b.units = m->units("u");
        b.reset = b.component->reset(0);
        m->removeAllComponents(); // the component (and with it the variable's and reset's owner) is released below
        auto c = b.component;
        b.component = Component::create("gone");
        c.reset();
        m.reset(); // the units' owner is gone too
    }
    return b;
}

static void badargs(const J &sc, Emitter &out)
{
    std::string svc = sc["svc"].str(), m = sc["m"].str(), kind = sc["kind"].str();
    J ev = J::obj();
    ev.set("e", "badarg").set("svc", svc).set("m", m).set("kind", kind);
    std::string outcome = "unimplemented";
    bool unchanged = true, afterOk = true;
    Bad bad = makeBad(kind);
    auto B = [](bool v) { return std::string(v ? "true" : "false"); };
    auto P = [](const void *p) { return std::string(p ? "nonnull" : "null"); };
    auto S = [](const std::string &s) { return std::string(s.empty() ? "empty" : "nonempty"); };

    if (svc == "importer") {
        std::string dir = "/tmp/vbad." + std::to_string(getpid());
        mkdir(dir.c_str(), 0700);
        auto importer = Importer::create(true);
        auto lib = parse(LIB_TEXT);
        importer->addModel(lib, dir + "/lib.cellml");
        auto main = parse(MAIN_TEXT);
        bool resolved = importer->resolveImports(main, dir);
        auto known = ImportSource::create();
        known->setUrl("known.cellml");
        importer->addImportSource(known);
        auto state = [&]() {
            std::string s = std::to_string(importer->libraryCount()) + "|" + std::to_string(importer->importSourceCount()) + "|" + dig(main) + "|" + dig(lib);
            for (size_t i = 0; i < importer->libraryCount(); ++i) {
                s += "|" + importer->key(i) + (importer->library(i) ? "+" : "-");
            }
            return s;
        };
        std::string before = state();
        size_t errorsBefore = importer->errorCount();
        ModelPtr nullModel;
        bool accepted = false;
        auto stranger = ImportSource::create();
        stranger->setUrl("stranger.cellml");
        ImportSourcePtr badIs = kind == "null" ? nullptr : stranger;
        if (m == "resolveImports") {
            outcome = B(importer->resolveImports(nullModel, dir));
        } else if (m == "flattenModel") {
            outcome = P(importer->flattenModel(nullModel).get());
        } else if (m == "clearImports") {
            importer->clearImports(nullModel);
            outcome = "void";
        } else if (m == "libraryByKey") {
            outcome = P(importer->library("nosuch.cellml").get());
        } else if (m == "libraryByIndex") {
            outcome = P(importer->library(importer->libraryCount()).get());
        } else if (m == "key") {
            outcome = S(importer->key(importer->libraryCount()));
        } else if (m == "addModel") {
            outcome = B(importer->addModel(nullModel, dir + "/other.cellml"));
        } else if (m == "replaceModel") {
            outcome = B(importer->replaceModel(lib, dir + "/nosuch.cellml"));
        } else if (m == "replaceModelNull") {
            bool r = importer->replaceModel(nullModel, dir + "/lib.cellml");
            outcome = r ? "accepted" : "false";
            accepted = r;
        } else if (m == "addImportSource") {
            outcome = B(importer->addImportSource(nullptr));
        } else if (m == "importSource") {
            outcome = P(importer->importSource(importer->importSourceCount()).get());
        } else if (m == "removeImportSourceByIndex") {
            outcome = B(importer->removeImportSource(importer->importSourceCount()));
        } else if (m == "removeImportSource") {
            outcome = B(importer->removeImportSource(badIs));
        } else if (m == "hasImportSource") {
            outcome = B(importer->hasImportSource(badIs));
        }
        if (outcome == "false" || outcome == "null" || outcome == "empty" || outcome == "void") {
            // fine
        } else if (importer->errorCount() > errorsBefore) {
            outcome = "issue";
        }
        unchanged = state() == before;
        auto again = parse(MAIN_TEXT);
        if (accepted) { // the library entry is empty now: resolving must fail with an issue, not crash
            size_t e0 = importer->errorCount();
            afterOk = !importer->resolveImports(again, dir) && importer->errorCount() > e0;
        } else {
            afterOk = resolved && importer->resolveImports(again, dir) && importer->flattenModel(again) != nullptr;
        }
        rmdir(dir.c_str());
    } else if (svc == "annotator") {
        auto model = parse(MAIN_TEXT);
        auto ann = Annotator::create();
        ann->setModel(model);
        auto state = [&]() {
            std::string s = dig(model) + "|" + (ann->hasModel() ? "m" : "-");
            for (auto &id : ann->ids()) {
                s += "|" + id;
            }
            return s;
        };
        std::string before = state();
        size_t errorsBefore = ann->errorCount();
        const std::string NOID = "nosuchid";
        ModelPtr nullModel;
        bool isNull = kind == "null";
        if (m == "setModel") {
            ann->setModel(nullModel);
            outcome = "void";
            before = state(); // the annotator now has no model: that is what was asked for; only the model itself must be unchanged
        } else if (m == "item") {
            auto it = ann->item(NOID);
            outcome = (!it || it->type() == CellmlElementType::UNDEFINED) ? "null" : "nonnull";
        } else if (m == "component") {
            outcome = P(ann->component(NOID).get());
        } else if (m == "componentRef") {
            outcome = P(ann->componentEncapsulation(NOID).get());
        } else if (m == "variable") {
            outcome = P(ann->variable(NOID).get());
        } else if (m == "units") {
            outcome = P(ann->units(NOID).get());
        } else if (m == "reset") {
            outcome = P(ann->reset(NOID).get());
        } else if (m == "model") {
            outcome = P(ann->model(NOID).get());
        } else if (m == "importSource") {
            outcome = P(ann->importSource(NOID).get());
        } else if (m == "unitsItem") {
            auto x = ann->unitsItem(NOID);
            outcome = (!x || !x->isValid()) ? "null" : "nonnull";
        } else if (m == "encapsulation") {
            outcome = P(ann->encapsulation(NOID).get());
        } else if (m == "connection") {
            auto x = ann->connection(NOID);
            outcome = (!x || !x->isValid()) ? "null" : "nonnull";
        } else if (m == "mapVariables") {
            auto x = ann->mapVariables(NOID);
            outcome = (!x || !x->isValid()) ? "null" : "nonnull";
        } else if (m == "resetValue") {
            outcome = P(ann->resetValue(NOID).get());
        } else if (m == "testValue") {
            outcome = P(ann->testValue(NOID).get());
        } else if (m == "itemCount") {
            outcome = ann->itemCount(NOID) == 0 ? "zero" : "nonzero";
        } else if (m == "items") {
            outcome = ann->items(NOID).empty() ? "empty" : "nonempty";
        } else if (m == "assignIdComponent") {
            outcome = S(ann->assignId(isNull ? ComponentPtr() : bad.component));
        } else if (m == "assignIdVariable") {
            outcome = S(ann->assignId(isNull ? VariablePtr() : bad.variable));
        } else if (m == "assignIdUnits") {
            outcome = S(ann->assignId(isNull ? UnitsPtr() : bad.units));
        } else if (m == "assignIdReset") {
            outcome = S(ann->assignId(isNull ? ResetPtr() : bad.reset));
        } else if (m == "assignIdModel") {
            outcome = S(ann->assignId(nullModel));
        } else if (m == "assignIdAny") {
            outcome = S(ann->assignId(AnyCellmlElementPtr()));
        } else if (m == "assignIdUnitsItem") {
            outcome = S(ann->assignId(model->units("u"), model->units("u")->unitCount()));
        } else if (m == "assignIdPair") {
            outcome = S(ann->assignId(model->component("c1")->variable("v1"), isNull ? VariablePtr() : bad.variable));
        } else if (m == "assignIdImportSource") {
            auto stranger = ImportSource::create();
            stranger->setUrl("stranger.cellml");
            outcome = S(ann->assignId(isNull ? ImportSourcePtr() : stranger));
        }
        (void)errorsBefore;
        unchanged = state() == before;
        if (m == "setModel") {
            afterOk = !ann->assignAllIds(); // no model: must refuse, not crash
            ann->setModel(model);
            afterOk = afterOk && ann->assignAllIds();
        } else {
            afterOk = ann->assignAllIds() && ann->component("c1id") == model->component("c1");
        }
    } else if (svc == "analyser" || svc == "extvar" || svc == "amodel") {
        auto model = parse(ODE_TEXT);
        auto other = parse(ODE_TEXT);
        auto comp = model->component("c");
        auto an = Analyser::create();
        auto ev1 = AnalyserExternalVariable::create(comp->variable("y"));
        ev1->addDependency(comp->variable("k"));
        an->addExternalVariable(ev1);
        an->analyseModel(model);
        std::string baseType = AnalyserModel::typeAsString(an->model()->type());
        auto am = an->model();
        auto state = [&]() {
            std::string s = dig(model) + "|" + std::to_string(an->externalVariableCount());
            for (size_t i = 0; i < an->externalVariableCount(); ++i) {
                auto e = an->externalVariable(i);
                s += "|" + (e->variable() ? e->variable()->name() : std::string("?")) + ":" + std::to_string(e->dependencyCount());
            }
            s += "|" + std::to_string(ev1->dependencyCount());
            for (size_t i = 0; i < ev1->dependencyCount(); ++i) {
                s += "," + ev1->dependency(i)->name();
            }
            return s;
        };
        std::string before = state();
        bool isNull = kind == "null";
        VariablePtr badVar = isNull ? VariablePtr() : bad.variable;
        ModelPtr nullModel;
        bool accepted = false;
        if (svc == "analyser") {
            if (m == "analyseModel") {
                auto a2 = Analyser::create();
                a2->analyseModel(nullModel);
                outcome = a2->errorCount() > 0 ? "issue" : "silent";
            } else if (m == "addExternalVariable") {
                outcome = B(an->addExternalVariable(nullptr));
            } else if (m == "addExternalVariableOn") {
                auto e = AnalyserExternalVariable::create(badVar);
                bool added = e != nullptr && an->addExternalVariable(e);
                outcome = added ? "accepted" : "false";
                accepted = added;
            } else if (m == "externalVariableByIndex") {
                outcome = P(an->externalVariable(an->externalVariableCount()).get());
            } else if (m == "externalVariableByName") {
                outcome = (an->externalVariable(model, "nosuch", "y") || an->externalVariable(model, "c", "nosuch")) ? "nonnull" : "null";
            } else if (m == "externalVariableNullModel") {
                outcome = P(an->externalVariable(nullModel, "c", "y").get());
            } else if (m == "removeExternalVariableByIndex") {
                outcome = B(an->removeExternalVariable(an->externalVariableCount()));
            } else if (m == "removeExternalVariableByName") {
                outcome = B(an->removeExternalVariable(model, "nosuch", "y") || an->removeExternalVariable(model, "c", "nosuch"));
            } else if (m == "removeExternalVariable") {
                outcome = B(an->removeExternalVariable(isNull ? AnalyserExternalVariablePtr() : AnalyserExternalVariable::create(comp->variable("k"))));
            } else if (m == "containsExternalVariable") {
                outcome = B(an->containsExternalVariable(isNull ? AnalyserExternalVariablePtr() : AnalyserExternalVariable::create(comp->variable("k"))));
            } else if (m == "containsExternalVariableByName") {
                outcome = B(an->containsExternalVariable(model, "nosuch", "y") || an->containsExternalVariable(model, "c", "nosuch"));
            }
        } else if (svc == "extvar") {
            if (m == "addDependency") {
                outcome = B(ev1->addDependency(badVar));
            } else if (m == "addDependencyForeign") {
                outcome = B(ev1->addDependency(other->component("c")->variable("k")));
            } else if (m == "removeDependencyByIndex") {
                outcome = B(ev1->removeDependency(ev1->dependencyCount()));
            } else if (m == "removeDependencyByName") {
                outcome = B(ev1->removeDependency(model, "nosuch", "k") || ev1->removeDependency(model, "c", "nosuch") || ev1->removeDependency(nullModel, "c", "k"));
            } else if (m == "removeDependency") {
                outcome = B(ev1->removeDependency(isNull ? VariablePtr() : comp->variable("x")));
            } else if (m == "dependencyByIndex") {
                outcome = P(ev1->dependency(ev1->dependencyCount()).get());
            } else if (m == "dependencyByName") {
                outcome = (ev1->dependency(model, "nosuch", "k") || ev1->dependency(model, "c", "nosuch") || ev1->dependency(nullModel, "c", "k")) ? "nonnull" : "null";
            } else if (m == "containsDependency") {
                outcome = B(ev1->containsDependency(isNull ? VariablePtr() : comp->variable("x")));
            } else if (m == "containsDependencyByName") {
                outcome = B(ev1->containsDependency(model, "nosuch", "k") || ev1->containsDependency(model, "c", "nosuch") || ev1->containsDependency(nullModel, "c", "k"));
            }
        } else {
            if (m == "state") {
                outcome = P(am->state(am->stateCount()).get());
            } else if (m == "variable") {
                outcome = P(am->variable(am->variableCount()).get());
            } else if (m == "equation") {
                outcome = P(am->equation(am->equationCount()).get());
            } else if (m == "areEquivalentVariablesLeft") {
                outcome = B(am->areEquivalentVariables(badVar, comp->variable("x")));
            } else if (m == "areEquivalentVariablesRight") {
                outcome = B(am->areEquivalentVariables(comp->variable("x"), badVar));
            } else if (m == "equationDependency") {
                auto e = am->equation(0);
                outcome = P(e->dependency(e->dependencyCount()).get());
            } else if (m == "equationNlaSibling") {
                auto e = am->equation(0);
                outcome = P(e->nlaSibling(e->nlaSiblingCount()).get());
            } else if (m == "equationVariable") {
                auto e = am->equation(0);
                outcome = P(e->variable(e->variableCount()).get());
            } else if (m == "variableEquation") {
                auto v = am->variable(0);
                outcome = P(v->equation(v->equationCount()).get());
            }
        }
        unchanged = state() == before;
        an->analyseModel(model); // must return; with a refused call the result is the same as before
        afterOk = accepted || AnalyserModel::typeAsString(an->model()->type()) == baseType;
        auto g = Generator::create();
        g->setModel(an->model());
        (void)g->implementationCode();
    } else if (svc == "validator") {
        auto v = Validator::create();
        v->validateModel(nullptr);
        outcome = v->errorCount() > 0 ? "issue" : "silent";
    } else if (svc == "printer") {
        auto p = Printer::create();
        outcome = S(p->printModel(ModelPtr()));
    } else if (svc == "generator") {
        auto g = Generator::create();
        g->setModel(nullptr);
        outcome = S(g->implementationCode() + g->interfaceCode());
    } else if (svc == "parser") {
        auto p = Parser::create(true);
        auto mm = p->parseModel("");
        outcome = mm == nullptr ? "null" : (p->errorCount() > 0 ? "issue" : "silent");
    }
    ev.set("outcome", outcome).set("unchanged", J(unchanged)).set("afterOk", J(afterOk));
    out.emit(ev);
}

static RegisterDriver reg("badargs", badargs);
