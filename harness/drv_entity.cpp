// Drivers "equality" (C10) and "clone" (C11): entities of TLC-generated abstract models, single mutations
// addressed by position in the abstract model record, equals()/clone() observed through the public API.
#include "build.h"

using namespace libcellml;

static std::string S(const J &j)
{
    std::string s = j.str("none");
    return s == "none" ? "" : untok(s);
}

struct Chain
{
    std::vector<EntityPtr> levels; // model first, mutated entity (or its container) last
    std::vector<std::string> kinds;
};

static void compChain(const Built &b, const ComponentPtr &c, Chain &ch)
{
    std::vector<ComponentPtr> up;
    auto cur = c;
    while (cur) {
        up.push_back(cur);
        cur = std::dynamic_pointer_cast<Component>(cur->parent());
    }
    ch.levels.push_back(b.model);
    ch.kinds.push_back("model");
    for (auto it = up.rbegin(); it != up.rend(); ++it) {
        ch.levels.push_back(*it);
        ch.kinds.push_back("comp");
    }
}

// the chain of entities whose equality a mutation at `t` must affect
static Chain chainOf(const Built &b, const J &t)
{
    Chain ch;
    std::string k = t["k"].str();
    if (k == "model") {
        ch.levels.push_back(b.model);
        ch.kinds.push_back("model");
    } else if (k == "units" || k == "unit" || k == "importU") {
        ch.levels.push_back(b.model);
        ch.kinds.push_back("model");
        auto u = b.unitsAt[static_cast<size_t>(t["u"].num())];
        ch.levels.push_back(u);
        ch.kinds.push_back("units");
        if (k == "importU") {
            ch.levels.push_back(u->importSource());
            ch.kinds.push_back("import");
        }
    } else {
        size_t ci = static_cast<size_t>(t["c"].num());
        compChain(b, b.compAt[ci], ch);
        if (k == "var") {
            ch.levels.push_back(b.varAt[ci][static_cast<size_t>(t["v"].num())]);
            ch.kinds.push_back("var");
        } else if (k == "reset") {
            ch.levels.push_back(b.resetAt[ci][static_cast<size_t>(t["r"].num())]);
            ch.kinds.push_back("reset");
        } else if (k == "import") {
            ch.levels.push_back(b.compAt[ci]->importSource());
            ch.kinds.push_back("import");
        }
    }
    return ch;
}

// C04 (resolved imports): a library model for the import of component / units `ref`, attached to the import source.
// The validator follows resolved imports: the target must be found anywhere in the library's encapsulation hierarchy (components)
// or among its units, is validated itself, and a chain of imports is followed in turn.
static ModelPtr libraryFor(const std::string &what, const std::string &kind, const std::string &ref, const std::string &url, std::vector<ModelPtr> &keep)
{
    const std::string head = "<?xml version=\"1.0\" encoding=\"UTF-8\"?>\n<model xmlns=\"http://www.cellml.org/cellml/2.0#\" xmlns:xlink=\"http://www.w3.org/1999/xlink\" name=\"library\">\n";
    std::string body;
    std::string goodVar = "<variable name=\"p\" units=\"dimensionless\" interface=\"public\"/>";
    bool chain = kind == "chain" || kind == "chainMissing" || kind == "cycle";
    if (what == "comp") {
        if (chain) {
            body = "<import xlink:href=\"" + std::string(kind == "cycle" ? url : "lib2.cellml") + "\"><component name=\"" + ref + "\" component_ref=\"" + (kind == "cycle" ? ref : "inner") + "\"/></import>";
        } else if (kind == "missing") {
            body = "<component name=\"somethingElse\">" + goodVar + "</component>";
        } else {
            body = "<component name=\"" + ref + "\">" + goodVar + "</component>";
            if (kind == "nested" || kind == "nestedInvalidInside") {
                body += "<component name=\"holder\"/><encapsulation><component_ref component=\"holder\"><component_ref component=\"" + ref + "\"/></component_ref></encapsulation>";
            } else if (kind == "deep") {
                body += "<component name=\"holder\"/><component name=\"mid\"/><encapsulation><component_ref component=\"holder\"><component_ref component=\"mid\"><component_ref component=\"" + ref
                        + "\"/></component_ref></component_ref></encapsulation>";
            }
        }
    } else {
        if (chain) {
            body = "<import xlink:href=\"" + std::string(kind == "cycle" ? url : "lib2.cellml") + "\"><units name=\"" + ref + "\" units_ref=\"" + (kind == "cycle" ? ref : "inner") + "\"/></import>";
        } else if (kind == "missing") {
            body = "<units name=\"somethingElse\"><unit units=\"second\"/></units>";
        } else if (kind == "invalidInside") {
            body = "<units name=\"" + ref + "\"><unit units=\"nowhere\"/></units>";
        } else if (kind == "viaLocal") { // the target is defined over another units of the library
            body = "<units name=\"base\"><unit units=\"second\"/></units><units name=\"" + ref + "\"><unit prefix=\"milli\" units=\"base\"/></units>";
        } else {
            body = "<units name=\"" + ref + "\"><unit units=\"second\"/></units>";
        }
    }
    auto parser = Parser::create();
    auto lib = parser->parseModel(head + body + "\n</model>\n");
    if (!lib || parser->errorCount() != 0) {
        return nullptr;
    }
    if (kind == "invalidInside" || kind == "nestedInvalidInside") {
        if (what == "comp") {
            lib->component(ref, true)->variable(0)->removeUnits(); // (the parser would not read a variable without units)
        }
    }
    keep.push_back(lib);
    if (chain) {
        ImportSourcePtr is = what == "comp" ? lib->component(ref)->importSource() : lib->units(ref)->importSource();
        if (kind == "cycle") {
            is->setModel(lib);
        } else {
            std::vector<ModelPtr> dummy;
            auto lib2 = libraryFor(what, kind == "chain" ? (what == "comp" ? "nested" : "top") : "missing", "inner", "lib2.cellml", keep);
            if (!lib2) {
                return nullptr;
            }
            is->setModel(lib2);
        }
    }
    return lib;
}

// apply one mutation to a built model; returns false if it could not be applied
bool mutate(Built &b, const J &mut)
{
    const J &t = mut["t"];
    std::string k = t["k"].str();
    std::string op = mut["op"].str();
    std::string attr = mut["attr"].str();
    std::string val = S(mut["val"]);
    if (op == "addEquivParentless") {
        auto v1 = b.varAt[static_cast<size_t>(mut["c1"].num())][static_cast<size_t>(mut["v1"].num())];
        auto loose = Variable::create("loose");
        loose->setUnits("dimensionless");
        b.loose.push_back(loose);
        return Variable::addEquivalence(v1, loose);
    }
    if (op == "addEquivOrphan" || op == "addEquivForeign") {
        // the partner lives in a component without a model / in another model, at a longer index path than anything here
        auto v1 = b.varAt[static_cast<size_t>(mut["c1"].num())][static_cast<size_t>(mut["v1"].num())];
        auto holder = Component::create("holder");
        for (auto n : {"o1", "o2", "o3", "o4", "o5", "o6"}) {
            auto o = Variable::create(n);
            o->setUnits("dimensionless");
            holder->addVariable(o);
        }
        b.extra.push_back(holder);
        if (op == "addEquivForeign") {
            auto other = Model::create("other");
            for (auto n : {"f1", "f2", "f3", "f4", "f5", "f6", "f7"}) {
                other->addComponent(Component::create(n));
            }
            other->addComponent(holder);
            b.libs.push_back(other);
        }
        return Variable::addEquivalence(v1, holder->variable(5));
    }
    if (op == "setPairId") {
        auto v1 = b.varAt[static_cast<size_t>(mut["c1"].num())][static_cast<size_t>(mut["v1"].num())];
        auto v2 = b.varAt[static_cast<size_t>(mut["c2"].num())][static_cast<size_t>(mut["v2"].num())];
        if (attr == "mapId") {
            Variable::setEquivalenceMappingId(v1, v2, val);
        } else {
            Variable::setEquivalenceConnectionId(v1, v2, val);
        }
        return true;
    }
    if (op == "addEquiv" || op == "removeEquiv") {
        auto v1 = b.varAt[static_cast<size_t>(mut["c1"].num())][static_cast<size_t>(mut["v1"].num())];
        auto v2 = b.varAt[static_cast<size_t>(mut["c2"].num())][static_cast<size_t>(mut["v2"].num())];
        return op == "addEquiv" ? Variable::addEquivalence(v1, v2) : Variable::removeEquivalence(v1, v2);
    }
    EntityPtr e;
    UnitsPtr units;
    ComponentPtr comp;
    VariablePtr var;
    ResetPtr reset;
    ImportSourcePtr imp;
    if (k == "model") {
        e = b.model;
    } else if (k == "units" || k == "unit" || k == "importU") {
        units = b.unitsAt[static_cast<size_t>(t["u"].num())];
        e = units;
        if (k == "importU") {
            imp = units->importSource();
            e = imp;
        }
    } else {
        size_t ci = static_cast<size_t>(t["c"].num());
        comp = b.compAt[ci];
        e = comp;
        if (k == "var") {
            var = b.varAt[ci][static_cast<size_t>(t["v"].num())];
            e = var;
        } else if (k == "reset") {
            reset = b.resetAt[ci][static_cast<size_t>(t["r"].num())];
            e = reset;
        } else if (k == "import") {
            imp = comp->importSource();
            e = imp;
        }
    }
    if (!e) {
        return false;
    }
    if (op == "dupUnitRef") { // a further unit child naming the same units as child 0, with other attributes
        if (!units || units->unitCount() == 0) {
            return false;
        }
        units->addUnit(units->unitAttributeReference(0), "micro", 3.0, 100.0, "dupid");
        return true;
    }
    if (op == "dupSibling") { // a second, identical child next to component t (same name: only the API can build this)
        if (!comp) {
            return false;
        }
        auto copy = comp->clone();
        auto parentComp = std::dynamic_pointer_cast<Component>(comp->parent());
        if (parentComp) {
            parentComp->addComponent(copy);
        } else {
            b.model->addComponent(copy);
        }
        b.extra.push_back(copy);
        return true;
    }
    if (op == "attachLib") {
        if (!imp) {
            return false;
        }
        static std::vector<ModelPtr> keep; // the import source does not own the model of a chain's second level
        keep.clear();
        std::string ref = k == "importU" ? units->importReference() : comp->importReference();
        auto lib = libraryFor(k == "importU" ? "units" : "comp", val, ref, imp->url(), keep);
        if (!lib) {
            return false;
        }
        // whatever else the model imports from the same source is there and valid
        for (size_t i = 0; i < b.unitsAt.size(); ++i) {
            auto u = b.unitsAt[i];
            if (u != units && u->isImport() && u->importSource() == imp && !lib->hasUnits(u->importReference())) {
                auto nu = Units::create(u->importReference());
                nu->addUnit("second");
                lib->addUnits(nu);
            }
        }
        for (auto &c : b.compAt) {
            if (c != comp && c->isImport() && c->importSource() == imp && !lib->containsComponent(c->importReference(), true)) {
                auto nc = Component::create(c->importReference());
                auto nv = Variable::create("p");
                nv->setUnits("dimensionless");
                nv->setInterfaceType("public");
                nc->addVariable(nv);
                lib->addComponent(nc);
            }
        }
        imp->setModel(lib);
        b.libs.push_back(lib);
        for (auto &m : keep) {
            b.libs.push_back(m);
        }
        return true;
    }
    if (op == "set") {
        if (attr == "id") {
            e->setId(val);
        } else if (attr == "name") {
            std::dynamic_pointer_cast<NamedEntity>(e)->setName(val);
        } else if (attr == "encId") {
            std::dynamic_pointer_cast<ComponentEntity>(e)->setEncapsulationId(val);
        } else if (attr == "math") {
            comp->setMath(val);
        } else if (attr == "ref") {
            std::dynamic_pointer_cast<ImportedEntity>(e)->setImportReference(val);
        } else if (attr == "url") {
            imp->setUrl(val);
        } else if (attr == "init") {
            var->setInitialValue(val);
        } else if (attr == "iface") {
            var->setInterfaceType(val);
        } else if (attr == "units" && mut["val"].str() == "none") {
            var->removeUnits();
        } else if (attr == "units") {
            auto it = b.units.find(mut["val"].str());
            if (it != b.units.end()) {
                var->setUnits(it->second);
            } else {
                var->setUnits(val);
            }
        } else if (attr == "order") {
            if (mut["val"].str() == "unset") {
                reset->removeOrder();
            } else {
                reset->setOrder(atoi(val.c_str()));
            }
        } else if (attr == "varOther") { // a variable of another component
            reset->setVariable(b.varAt[static_cast<size_t>(mut["oc"].num())][0]);
        } else if (attr == "tvarOther") { // test variable y of another component
            reset->setTestVariable(b.varAt[static_cast<size_t>(mut["oc"].num())][1]);
        } else if (attr == "var" || attr == "tvar") {
            size_t ci = static_cast<size_t>(t["c"].num());
            VariablePtr nv = mut["val"].str() == "none" ? nullptr : b.varAt[ci][static_cast<size_t>(atoi(val.c_str()))];
            if (attr == "var") {
                reset->setVariable(nv);
            } else {
                reset->setTestVariable(nv);
            }
        } else if (attr == "tv") {
            reset->setTestValue(val);
        } else if (attr == "tvid") {
            reset->setTestValueId(val);
        } else if (attr == "rv") {
            reset->setResetValue(val);
        } else if (attr == "rvid") {
            reset->setResetValueId(val);
        } else if (k == "unit") {
            size_t j = static_cast<size_t>(t["j"].num());
            std::string ref = units->unitAttributeReference(j);
            std::string prefix = units->unitAttributePrefix(j);
            double ex = units->unitAttributeExponent(j);
            double mu = units->unitAttributeMultiplier(j);
            std::string id = units->unitId(j);
            if (attr == "unitRef") {
                ref = val;
            } else if (attr == "prefix") {
                prefix = val;
            } else if (attr == "exp") {
                ex = strtod(val.c_str(), nullptr);
            } else if (attr == "mult") {
                mu = strtod(val.c_str(), nullptr);
            } else if (attr == "unitId") {
                id = val;
            }
            // rebuild the child list with child j altered (no setter for prefix/exponent/multiplier)
            struct U
            {
                std::string r, p, i;
                double e, m;
            };
            std::vector<U> all;
            for (size_t q = 0; q < units->unitCount(); ++q) {
                all.push_back({units->unitAttributeReference(q), units->unitAttributePrefix(q), units->unitId(q), units->unitAttributeExponent(q), units->unitAttributeMultiplier(q)});
            }
            all[j] = {ref, prefix, id, ex, mu};
            units->removeAllUnits();
            for (auto &x : all) {
                units->addUnit(x.r, x.p, x.e, x.m, x.i);
            }
        } else {
            return false;
        }
        return true;
    }
    std::string child = mut["child"].str();
    if (op == "addChild") {
        if (child == "unit") {
            units->addUnit("ampere", "", 3.0, 1.0, "");
        } else if (child == "units") {
            b.model->addUnits(Units::create("extra_units"));
        } else if (child == "var") {
            comp->addVariable(Variable::create("extra_var"));
        } else if (child == "reset") {
            comp->addReset(Reset::create(42));
        } else if (child == "comp") {
            auto ce = std::dynamic_pointer_cast<ComponentEntity>(e);
            ce->addComponent(Component::create("extra_comp"));
        } else {
            return false;
        }
        return true;
    }
    if (op == "removeChild") {
        if (child == "unit") {
            return units->removeUnit(size_t(0));
        }
        if (child == "units") {
            return b.model->removeUnits(size_t(0));
        }
        if (child == "var") {
            return comp->removeVariable(size_t(0));
        }
        if (child == "reset") {
            return comp->removeReset(size_t(0));
        }
        if (child == "comp") {
            return std::dynamic_pointer_cast<ComponentEntity>(e)->removeComponent(size_t(0));
        }
        return false;
    }
    if (op == "reverse") { // child order permutation: take everything out and add it back reversed
        if (child == "units") {
            std::vector<UnitsPtr> xs;
            while (b.model->unitsCount() > 0) {
                xs.push_back(b.model->takeUnits(size_t(0)));
            }
            for (auto it = xs.rbegin(); it != xs.rend(); ++it) {
                b.model->addUnits(*it);
            }
        } else if (child == "var") {
            std::vector<VariablePtr> xs;
            while (comp->variableCount() > 0) {
                xs.push_back(comp->takeVariable(size_t(0)));
            }
            for (auto it = xs.rbegin(); it != xs.rend(); ++it) {
                comp->addVariable(*it);
            }
        } else if (child == "reset") {
            std::vector<ResetPtr> xs;
            while (comp->resetCount() > 0) {
                xs.push_back(comp->takeReset(size_t(0)));
            }
            for (auto it = xs.rbegin(); it != xs.rend(); ++it) {
                comp->addReset(*it);
            }
        } else if (child == "comp") {
            auto ce = std::dynamic_pointer_cast<ComponentEntity>(e);
            std::vector<ComponentPtr> xs;
            while (ce->componentCount() > 0) {
                xs.push_back(ce->takeComponent(size_t(0)));
            }
            for (auto it = xs.rbegin(); it != xs.rend(); ++it) {
                ce->addComponent(*it);
            }
        } else if (child == "unit") {
            struct U
            {
                std::string r, p, i;
                double e, m;
            };
            std::vector<U> all;
            for (size_t q = 0; q < units->unitCount(); ++q) {
                all.push_back({units->unitAttributeReference(q), units->unitAttributePrefix(q), units->unitId(q), units->unitAttributeExponent(q), units->unitAttributeMultiplier(q)});
            }
            units->removeAllUnits();
            for (auto it = all.rbegin(); it != all.rend(); ++it) {
                units->addUnit(it->r, it->p, it->e, it->m, it->i);
            }
        } else {
            return false;
        }
        return true;
    }
    return false;
}

static J eqPairs(const Chain &a, const Chain &b)
{
    J r = J::arr();
    for (size_t i = 0; i < a.levels.size() && i < b.levels.size(); ++i) {
        J p = J::obj();
        bool ab = a.levels[i] && a.levels[i]->equals(b.levels[i]);
        bool ba = b.levels[i] && b.levels[i]->equals(a.levels[i]);
        p.set("k", a.kinds[i]).set("ab", J(ab)).set("ba", J(ba));
        r.push(p);
    }
    return r;
}

// C10: A and B are two independent builds of the same abstract model; B then receives one mutation.
static void equality(const J &sc, Emitter &out)
{
    Built a = buildModel(sc["am"]);
    Built b = buildModel(sc["am"]);
    const J &mut = sc["mut"];
    J ev = J::obj();
    ev.set("e", "equals").set("fv", sc["fv"]).set("mut", mut);
    if (sc["pre"].k == J::OBJ) { // a preparation applied to both sides
        bool ok = mutate(a, sc["pre"]) && mutate(b, sc["pre"]);
        ev.set("pre", sc["pre"]).set("preApplied", J(ok));
    }
    Chain ca = chainOf(a, mut["t"]);
    Chain cb = chainOf(b, mut["t"]);
    ev.set("copy", eqPairs(ca, cb));
    ev.set("refl", eqPairs(ca, ca));
    // a change of a units definition is also a change of every variable that holds that units object (and of its component)
    Chain ua, ub;
    std::string tk = mut["t"]["k"].str();
    if (tk == "units" || tk == "unit") {
        auto ma = a.unitsAt[static_cast<size_t>(mut["t"]["u"].num())];
        for (size_t ci = 0; ci < a.varAt.size(); ++ci) {
            for (size_t vi = 0; vi < a.varAt[ci].size(); ++vi) {
                if (a.varAt[ci][vi]->units() == ma && ma != nullptr) {
                    ua.levels.push_back(a.varAt[ci][vi]);
                    ub.levels.push_back(b.varAt[ci][vi]);
                    ua.kinds.push_back("var");
                    ub.kinds.push_back("var");
                    ua.levels.push_back(a.compAt[ci]);
                    ub.levels.push_back(b.compAt[ci]);
                    ua.kinds.push_back("comp");
                    ub.kinds.push_back("comp");
                }
            }
        }
    }
    ev.set("usersCopy", eqPairs(ua, ub));
    bool applied = mutate(b, mut);
    ev.set("applied", J(applied));
    ev.set("mutated", eqPairs(ca, cb));
    ev.set("usersMutated", eqPairs(ua, ub));
    // nothing compares equal to null or to an entity of another kind
    ev.set("vsNull", J(a.model->equals(nullptr)));
    out.emit(ev);
}

static J wrapContent(const std::string &kind, const EntityPtr &e)
{
    auto w = Model::create("wrap");
    if (kind == "model") {
        return contentOf(std::dynamic_pointer_cast<Model>(e));
    }
    if (kind == "units") {
        w->addUnits(std::dynamic_pointer_cast<Units>(e));
    } else if (kind == "comp") {
        w->addComponent(std::dynamic_pointer_cast<Component>(e));
    } else if (kind == "var") {
        auto c = Component::create("w");
        c->addVariable(std::dynamic_pointer_cast<Variable>(e));
        w->addComponent(c);
    } else if (kind == "reset") {
        auto c = Component::create("w");
        c->addReset(std::dynamic_pointer_cast<Reset>(e));
        w->addComponent(c);
    }
    J r = contentOf(w);
    // undo the wrapping so that the clone is parentless again
    w->removeAllUnits();
    w->removeAllComponents();
    if (kind == "var") {
        std::dynamic_pointer_cast<Component>(std::dynamic_pointer_cast<Variable>(e)->parent());
    }
    return r;
}

static EntityPtr cloneOf(const std::string &kind, const EntityPtr &e)
{
    if (kind == "model") {
        return std::dynamic_pointer_cast<Model>(e)->clone();
    }
    if (kind == "units") {
        return std::dynamic_pointer_cast<Units>(e)->clone();
    }
    if (kind == "comp") {
        return std::dynamic_pointer_cast<Component>(e)->clone();
    }
    if (kind == "var") {
        return std::dynamic_pointer_cast<Variable>(e)->clone();
    }
    if (kind == "reset") {
        return std::dynamic_pointer_cast<Reset>(e)->clone();
    }
    if (kind == "import") {
        return std::dynamic_pointer_cast<ImportSource>(e)->clone();
    }
    return nullptr;
}

static void collectVars(const ComponentPtr &c, std::vector<VariablePtr> &out)
{
    for (size_t i = 0; i < c->variableCount(); ++i) {
        out.push_back(c->variable(i));
    }
    for (size_t i = 0; i < c->componentCount(); ++i) {
        collectVars(c->component(i), out);
    }
}

// C11: clone the target entity; compare content, equality, parent; then mutate one side and look at the other.
static void cloneDrv(const J &sc, Emitter &out)
{
    Built a = buildModel(sc["am"]);
    bool preOk = sc["pre"].k != J::OBJ || mutate(a, sc["pre"]); // a preparation that leaves the content (by names) unchanged
    const J &t = sc["t"];
    Chain ch = chainOf(a, t);
    EntityPtr target = ch.levels.back();
    std::string kind = ch.kinds.back();
    J ev = J::obj();
    ev.set("e", "clone").set("fv", sc["fv"]).set("t", t).set("mut", sc["mut"]).set("side", sc["side"]).set("kind", kind);
    if (sc["pre"].k == J::OBJ) {
        ev.set("pre", sc["pre"]);
    }
    J before = contentOf(a.model);
    EntityPtr c = cloneOf(kind, target);
    ev.set("cloned", J(c != nullptr && preOk));
    ev.set("origUnchangedByClone", J(contentOf(a.model).dump() == before.dump()));
    auto pe = std::dynamic_pointer_cast<ParentedEntity>(c);
    ev.set("parentless", J(!pe || pe->parent() == nullptr));
    ev.set("eqOC", J(target->equals(c))).set("eqCO", J(c && c->equals(target)));
    if (kind == "import") {
        auto is = std::dynamic_pointer_cast<ImportSource>(c);
        J r = J::obj();
        r.set("url", tok(is->url())).set("id", is->id().empty() ? "none" : tok(is->id()));
        ev.set("content", r);
    } else {
        ev.set("content", wrapContent(kind, c));
    }
    // equivalences inside a cloned model connect only the clone's own variables
    bool inside = true;
    if (kind == "model") {
        auto cm = std::dynamic_pointer_cast<Model>(c);
        std::vector<VariablePtr> vs;
        for (size_t i = 0; i < cm->componentCount(); ++i) {
            collectVars(cm->component(i), vs);
        }
        for (auto &v : vs) {
            for (size_t i = 0; i < v->equivalentVariableCount(); ++i) {
                auto w = v->equivalentVariable(i);
                inside = inside && std::find(vs.begin(), vs.end(), w) != vs.end();
            }
        }
    }
    ev.set("equivInside", J(inside));
    // independence: mutate one side, the other side's content must not change
    if (sc["mut"].k == J::OBJ && kind == "model") {
        auto cm = std::dynamic_pointer_cast<Model>(c);
        std::string origBefore = contentOf(a.model).dump();
        std::string cloneBefore = contentOf(cm).dump();
        if (sc["side"].str() == "orig") {
            bool ok = mutate(a, sc["mut"]);
            ev.set("applied", J(ok));
            ev.set("otherUnchanged", J(contentOf(cm).dump() == cloneBefore));
            ev.set("thisChanged", J(contentOf(a.model).dump() != origBefore));
        } else {
            Built cb; // address the clone by the same positions: rebuild the index vectors from the clone
            cb.model = cm;
            // units
            for (size_t i = 0; i < a.unitsAt.size(); ++i) {
                cb.unitsAt.push_back(cm->units(a.unitsAt[i]->name()));
                cb.units[tok(a.unitsAt[i]->name())] = cb.unitsAt.back();
            }
            std::function<ComponentPtr(const ComponentPtr &)> mirror = [&](const ComponentPtr &oc) -> ComponentPtr {
                std::vector<size_t> path;
                ComponentPtr cur = oc;
                while (cur) {
                    auto parent = std::dynamic_pointer_cast<ComponentEntity>(cur->parent());
                    size_t idx = 0;
                    for (size_t q = 0; parent && q < parent->componentCount(); ++q) {
                        if (parent->component(q) == cur) {
                            idx = q;
                        }
                    }
                    path.push_back(idx);
                    cur = std::dynamic_pointer_cast<Component>(cur->parent());
                }
                ComponentEntityPtr ce = cm;
                ComponentPtr res;
                for (auto it = path.rbegin(); it != path.rend(); ++it) {
                    res = ce->component(*it);
                    ce = res;
                }
                return res;
            };
            for (size_t i = 0; i < a.compAt.size(); ++i) {
                auto mc = mirror(a.compAt[i]);
                cb.compAt.push_back(mc);
                std::vector<VariablePtr> vs;
                std::vector<ResetPtr> rs;
                for (size_t q = 0; mc && q < mc->variableCount(); ++q) {
                    vs.push_back(mc->variable(q));
                }
                for (size_t q = 0; mc && q < mc->resetCount(); ++q) {
                    rs.push_back(mc->reset(q));
                }
                cb.varAt.push_back(vs);
                cb.resetAt.push_back(rs);
            }
            bool ok = mutate(cb, sc["mut"]);
            ev.set("applied", J(ok));
            ev.set("otherUnchanged", J(contentOf(a.model).dump() == origBefore));
            ev.set("thisChanged", J(contentOf(cm).dump() != cloneBefore));
        }
    }
    out.emit(ev);
}

static RegisterDriver reg1("equality", equality);
static RegisterDriver reg2("clone", cloneDrv);
