// Driver "numtext" (C16): one string placed in every numeric position of a CellML document.
#include "core.h"

#include <cmath>

using namespace libcellml;

std::string ruleName(const IssuePtr &issue);

static std::string symbols(const J &seq)
{
    std::string r;
    for (auto &c : seq.a) {
        r += c.s == "SP" ? std::string(" ") : c.s;
    }
    return r;
}

static J rulesOf(const LoggerPtr &lg)
{
    J r = J::arr();
    for (size_t i = 0; i < lg->issueCount(); ++i) {
        r.push(ruleName(lg->issue(i)));
    }
    return r;
}

static bool closeTo(double obs, double exp, double rel)
{
    if (obs == exp) {
        return true;
    }
    if (std::isnan(obs) || std::isnan(exp)) {
        return false;
    }
    return std::fabs(obs - exp) <= rel * std::max(std::fabs(exp), std::fabs(obs));
}

static const char *HEAD = "<?xml version=\"1.0\" encoding=\"UTF-8\"?>\n<model xmlns=\"http://www.cellml.org/cellml/2.0#\" name=\"m\">\n";

static std::string document(const std::string &pos, const std::string &s)
{
    std::string d = HEAD;
    if (pos == "exp" || pos == "mult" || pos == "prefix") {
        std::string attr = pos == "exp" ? "exponent" : (pos == "mult" ? "multiplier" : "prefix");
        d += "<units name=\"u\"><unit units=\"second\" " + attr + "=\"" + s + "\"/></units>\n";
    } else if (pos == "init") {
        d += "<component name=\"c\"><variable name=\"x\" units=\"dimensionless\" initial_value=\"" + s + "\"/></component>\n";
    } else if (pos == "order") {
        d += "<component name=\"c\"><variable name=\"x\" units=\"dimensionless\"/><variable name=\"y\" units=\"dimensionless\"/>"
             "<reset variable=\"x\" test_variable=\"y\" order=\""
             + s + "\"><test_value><math xmlns=\"http://www.w3.org/1998/Math/MathML\"><ci>y</ci></math></test_value>"
                   "<reset_value><math xmlns=\"http://www.w3.org/1998/Math/MathML\"><ci>y</ci></math></reset_value></reset></component>\n";
    } else {
        std::string cn;
        if (pos == "cn") {
            cn = "<cn cellml:units=\"dimensionless\">" + s + "</cn>";
        } else if (pos == "sepman") {
            cn = "<cn cellml:units=\"dimensionless\" type=\"e-notation\">" + s + "<sep/>3</cn>";
        } else {
            cn = "<cn cellml:units=\"dimensionless\" type=\"e-notation\">1.5<sep/>" + s + "</cn>";
        }
        d += "<component name=\"c\"><variable name=\"x\" units=\"dimensionless\"/>"
             "<math xmlns=\"http://www.w3.org/1998/Math/MathML\" xmlns:cellml=\"http://www.cellml.org/cellml/2.0#\"><apply><eq/><ci>x</ci>"
             + cn + "</apply></math></component>\n";
    }
    d += "</model>\n";
    return d;
}

static long long satInt(const std::string &t)
{
    bool neg = !t.empty() && t[0] == '-';
    size_t i = (!t.empty() && (t[0] == '-' || t[0] == '+')) ? 1 : 0;
    long long v = 0;
    for (; i < t.size(); ++i) {
        if (!isdigit(static_cast<unsigned char>(t[i]))) {
            break;
        }
        v = v * 10 + (t[i] - '0');
        if (v > 1000000000000000LL) {
            v = 1000000000000000LL;
        }
    }
    return neg ? -v : v;
}

static void numtext(const J &sc, Emitter &out)
{
    std::string s = symbols(sc["s"]);
    const J &dec = sc["dec"];
    // spec-provided decomposition -> expected value (independent of the library's conversion path)
    std::string digits = symbols(dec["digits"]);
    long long e10 = satInt(symbols(dec["exp"])) - dec["frac"].num();
    std::string norm = std::string(dec["neg"].boolean() ? "-" : "") + (digits.empty() ? "0" : digits) + "e" + std::to_string(e10);
    double expected = strtod(norm.c_str(), nullptr);
    long long expectedInt = satInt(s);

    static const char *positions[] = {"exp", "mult", "prefix", "init", "cn", "sepman", "sepexp", "order"};
    for (auto pos : positions) {
        std::string p = pos;
        if (s.empty() && (p == "prefix" || p == "init")) {
            continue; // an empty attribute is an absent attribute there
        }
        J ev = J::obj();
        ev.set("e", "place").set("pos", p).set("s", sc["s"]).set("dec", dec);
        auto parser = Parser::create(true);
        auto model = parser->parseModel(document(p, s));
        ev.set("prules", rulesOf(parser)).set("plog", loggerObs(parser));
        ev.set("parsed", J(model != nullptr));
        bool hasVal = false;
        bool valOk = true;
        bool rtOk = true;
        auto validator = Validator::create();
        validator->validateModel(model);
        ev.set("vrules", rulesOf(validator)).set("vlog", loggerObs(validator));
        if (model) {
            if ((p == "exp" || p == "mult") && model->unitsCount() == 1 && model->units(0)->unitCount() == 1) {
                hasVal = true;
                auto u = model->units(0);
                double obs = p == "exp" ? u->unitAttributeExponent(0) : u->unitAttributeMultiplier(0);
                valOk = closeTo(obs, expected, 1e-15);
                // printed numbers are read back equal to 15 significant digits
                auto printer = Printer::create();
                auto text = printer->printModel(model);
                auto m2 = Parser::create(true)->parseModel(text);
                rtOk = false;
                if (m2 && m2->unitsCount() == 1 && m2->units(0)->unitCount() == 1) {
                    double obs2 = p == "exp" ? m2->units(0)->unitAttributeExponent(0) : m2->units(0)->unitAttributeMultiplier(0);
                    rtOk = closeTo(obs2, obs, 1e-14);
                }
            } else if (p == "order" && model->componentCount() == 1 && model->component(0)->resetCount() == 1) {
                auto r = model->component(0)->reset(0);
                if (r->isOrderSet()) {
                    hasVal = true;
                    valOk = r->order() == expectedInt;
                    auto text = Printer::create()->printModel(model);
                    auto m2 = Parser::create(true)->parseModel(text);
                    rtOk = m2 && m2->componentCount() == 1 && m2->component(0)->resetCount() == 1 && m2->component(0)->reset(0)->order() == r->order();
                }
            } else if (p == "prefix" && model->unitsCount() == 1 && model->units(0)->unitCount() == 1) {
                // the stored prefix is the text (or empty for a zero prefix); isDefined / scaling must not throw
                (void)Units::scalingFactor(model->units(0), model->units(0));
            }
            // later pipeline stages on what the validator accepted: must simply return
            if (validator->issueCount() == 0) {
                auto analyser = Analyser::create();
                analyser->analyseModel(model);
                ev.set("alog", loggerObs(analyser));
                auto gen = Generator::create();
                gen->setModel(analyser->model());
                (void)gen->implementationCode();
                (void)model->isDefined();
            }
        }
        ev.set("hasVal", J(hasVal)).set("valOk", J(valOk)).set("rtOk", J(rtOk));
        out.emit(ev);
    }
}

static RegisterDriver reg("numtext", numtext);
