// Driver "pipeline" (C01): an abstract hostile document (skeleton + slot overrides, specs/Pipeline/HostileDoc.tla) is
// written out as bytes, handed to the parser, and every public stage is applied to whatever came back, in the order the
// scenario gives. One Call event before and one Return event after each stage: a crash, an uncaught exception, a
// sanitizer abort or a timeout leaves a Call without its Return (the executor adds the Crash / Hang event).
#include "core.h"

#include <cmath>
#include <fstream>
#include <set>
#include <sys/stat.h>
#include <unistd.h>

using namespace libcellml;
std::string ruleName(const IssuePtr &issue);

static const char *NS20 = "http://www.cellml.org/cellml/2.0#";
static const char *MML = "http://www.w3.org/1998/Math/MathML";

static std::string rep(const std::string &s, size_t n)
{
    std::string r;
    r.reserve(s.size() * n);
    for (size_t i = 0; i < n; ++i) {
        r += s;
    }
    return r;
}

// {REP:text:count} {NEST:open:close:count} {CHAIN:n} {DOUBLING:n} {PAIRWISE:n} {RING:n} {BOM} {NUL} + the named tokens of tok()
static std::string expand(std::string s, const std::string &chainEnd)
{
    for (;;) {
        size_t p = s.find("{REP:");
        size_t kind = 0;
        if (p == std::string::npos) {
            p = s.find("{NEST:");
            kind = 1;
        }
        if (p == std::string::npos) {
            break;
        }
        size_t e = s.find('}', p);
        std::string body = s.substr(p + (kind ? 6 : 5), e - p - (kind ? 6 : 5));
        size_t lc = body.rfind(':');
        size_t n = static_cast<size_t>(atol(body.substr(lc + 1).c_str()));
        std::string txt = body.substr(0, lc);
        std::string out;
        if (kind == 0) {
            out = rep(txt, n);
        } else {
            size_t mc = txt.rfind(':');
            std::string open = txt.substr(0, mc), close = txt.substr(mc + 1);
            std::string mid = (open.find("apply") != std::string::npos || open.find("piecewise") != std::string::npos) ? "<ci>v1</ci>" : "";
            out = rep(open, n) + mid + rep(close, n);
        }
        s.replace(p, e - p + 1, out);
    }
    auto macro = [&](const std::string &name, std::function<std::string(size_t)> gen) {
        size_t p;
        while ((p = s.find("{" + name + ":")) != std::string::npos) {
            size_t e = s.find('}', p);
            size_t n = static_cast<size_t>(atol(s.substr(p + name.size() + 2, e - p - name.size() - 2).c_str()));
            s.replace(p, e - p + 1, gen(n));
        }
    };
    macro("CHAIN", [&](size_t n) {
        std::string r;
        for (size_t i = 1; i <= n; ++i) {
            r += "<units name='k" + std::to_string(i) + "'><unit units='" + (i < n ? "k" + std::to_string(i + 1) : chainEnd) + "'/></units>";
        }
        return r;
    });
    macro("DOUBLING", [&](size_t n) { // k_i = k_(i+1) . k_(i+1)^-1: every units is reached along 2^i paths
        std::string r;
        for (size_t i = 1; i <= n; ++i) {
            std::string next = i < n ? "k" + std::to_string(i + 1) : chainEnd;
            r += "<units name='k" + std::to_string(i) + "'><unit units='" + next + "'/><unit units='" + next + "' exponent='-1'/></units>";
        }
        return r;
    });
    macro("PAIRWISE", [&](size_t n) {
        std::string r;
        for (size_t i = 1; i <= n; ++i) {
            r += "<component name='p" + std::to_string(i) + "'><variable name='v' units='second' interface='public'/></component>";
        }
        r += "<component name='pz'><variable name='z' units='second' interface='public'/></component>";
        for (size_t i = 1; i <= n; ++i) {
            for (size_t j = i + 1; j <= n; ++j) {
                r += "<connection component_1='p" + std::to_string(i) + "' component_2='p" + std::to_string(j) + "'><map_variables variable_1='v' variable_2='v'/></connection>";
            }
        }
        return r;
    });
    macro("RING", [&](size_t n) {
        std::string r;
        for (size_t i = 1; i <= n; ++i) {
            r += "<component name='r" + std::to_string(i) + "'><variable name='v' units='second' interface='public'/></component>";
        }
        for (size_t i = 1; i <= n; ++i) {
            r += "<connection component_1='r" + std::to_string(i) + "' component_2='r" + std::to_string(i % n + 1) + "'><map_variables variable_1='v' variable_2='v'/></connection>";
        }
        return r;
    });
    size_t p;
    while ((p = s.find("{BOM}")) != std::string::npos) {
        s.replace(p, 5, "\xEF\xBB\xBF");
    }
    while ((p = s.find("{NUL}")) != std::string::npos) {
        s.replace(p, 5, std::string(1, '\0'));
    }
    return untok(s);
}

static std::string valid20(std::map<std::string, std::string> sl)
{
    auto S = [&](const std::string &k, const std::string &dflt) { return sl.count(k) ? sl[k] : dflt; };
    std::string chainEnd = S("chainend", "second");
    std::string cnContent = S("cntype", "").empty() ? S("cn", "1") : S("mantissa", "1") + "<sep/>" + S("sep", "2");
    std::string cn = "<cn cellml:units='" + S("cnunits", "u1") + "'" + S("cntype", "") + ">" + cnContent + "</cn>";
    std::string snip = S("snippet", "");
    std::string place = S("mathplace", "none");
    std::string eq1 = "<apply><eq/><ci>v2</ci><apply><plus/><ci>v1</ci>" + cn + "</apply></apply>";
    std::string eq2 = "<apply><eq/><apply><diff/><bvar><ci>t</ci></bvar><ci>v3</ci></apply><ci>v2</ci></apply>";
    if (place == "rhs") {
        eq1 = "<apply><eq/><ci>v2</ci>" + snip + "</apply>";
    } else if (place == "lhs") {
        eq1 = "<apply><eq/>" + snip + "<ci>v1</ci></apply>";
    } else if (place == "whole") {
        eq1 = snip;
    } else if (place == "arg") {
        eq1 = "<apply><eq/><ci>v2</ci><apply><plus/><ci>v1</ci>" + snip + "</apply></apply>";
    } else if (place == "bare") {
        eq1 = snip;
        eq2 = "";
    }
    std::string mathRoot = S("mathroot", "math");
    std::string mathOpen = "<" + mathRoot + (S("mathns", MML).empty() ? "" : " xmlns='" + S("mathns", MML) + "'") + (S("mathattrs", "").empty() ? "" : " " + S("mathattrs", "")) + ">";
    std::string mathClose = "</" + mathRoot + ">";
    std::string reset;
    if (S("reset", "no") == "yes") {
        std::string m1 = "<math xmlns='" + std::string(MML) + "'>";
        std::string tv = place == "testvalue" ? snip : "<cn cellml:units='u1'>" + S("resetcn", "1") + "</cn>";
        std::string body = S("resetbody", "<test_value>" + m1 + tv + "</math></test_value><reset_value>" + m1 + "<cn cellml:units='u1'>0</cn></math></reset_value>");
        reset = "<reset " + S("resetattrs", "variable='v3' test_variable='v2' order='" + S("order", "1") + "'") + ">" + body + "</reset>";
        if (sl.count("reset2order")) {
            reset += "<reset variable='v3' test_variable='v2'" + (sl["reset2order"].empty() ? "" : " order='" + sl["reset2order"] + "'") + ">"
                     + "<test_value>" + m1 + "<cn cellml:units='u1'>2</cn></math></test_value><reset_value>" + m1 + "<cn cellml:units='u1'>0</cn></math></reset_value></reset>";
        }
    }
    std::string rootns = S("rootns", NS20);
    std::string s = S("prolog", "<?xml version='1.0' encoding='UTF-8'?>") + "\n";
    s += "<model" + (rootns.empty() ? "" : " xmlns='" + rootns + "'") + " " + S("cellmlprefix", "xmlns:cellml='" + std::string(NS20) + "'")
         + " xmlns:xlink='http://www.w3.org/1999/xlink' name='" + S("modelName", "m") + "'>\n";
    s += S("moreunits", "");
    s += "<units name='u1'><unit units='" + S("u1ref", "second") + "' prefix='" + S("prefix", "milli") + "' exponent='" + S("exponent", "1") + "' multiplier='" + S("multiplier", "1") + "'/></units>\n";
    s += "<units name='" + S("u2name", "u2") + "'><unit units='" + S("u2ref", "second") + "'/></units>\n";
    s += "<units name='" + S("u3name", "u3") + "'><unit units='" + S("u3ref", "second") + "'/></units>\n";
    s += "<component name='c1'>\n<variable name='t' units='second' interface='public_and_private'/>\n";
    s += "<variable name='v1' units='" + S("v1units", "u1") + "' initial_value='" + S("initial_value", "1") + "' interface='" + S("interface", "public_and_private") + "'/>\n";
    s += "<variable name='" + S("v2name", "v2") + "' units='u1' interface='public_and_private'/>\n<variable name='v3' units='u1' initial_value='0'/>\n";
    s += mathOpen + eq1 + eq2 + mathClose + "\n" + reset + "</component>\n";
    s += "<component name='c2'><variable name='w' units='" + S("wunits", "u1") + "' interface='public'/><variable name='t' units='second' interface='public'/></component>\n";
    s += "<encapsulation>" + S("encaps", "<component_ref component='c1'><component_ref component='c2'/></component_ref>") + "</encapsulation>\n";
    s += "<connection " + S("conncomps", "component_1='c1' component_2='c2'") + ">" + S("maps", "<map_variables variable_1='v1' variable_2='w'/><map_variables variable_1='t' variable_2='t'/>") + "</connection>\n";
    s += S("extra", "");
    s += "</model>" + S("tail", "") + "\n";
    return expand(s, chainEnd);
}

static std::string legacy(const std::string &version, std::map<std::string, std::string> sl)
{
    auto S = [&](const std::string &k, const std::string &dflt) { return sl.count(k) ? sl[k] : dflt; };
    std::string ns = "http://www.cellml.org/cellml/" + version + "#";
    std::string s = "<?xml version='1.0' encoding='UTF-8'?>\n<model xmlns='" + ns + "' xmlns:cellml='" + ns + "' xmlns:cmeta='http://www.cellml.org/metadata/1.0#' name='m' cmeta:id='mid'>\n";
    s += "<units name='u1'><unit units='" + S("u1ref", "second") + "' prefix='" + S("prefix", "milli") + "' exponent='" + S("exponent", "1") + "' multiplier='1'/></units>\n";
    s += "<units name='u2'><unit units='" + S("u2ref", "second") + "'/></units><units name='u3'><unit units='" + S("u3ref", "second") + "'/></units>\n";
    s += "<component name='c1'><units name='lu'><unit units='liter'/></units><variable name='t' units='second' public_interface='in' private_interface='out'/>"
         "<variable name='v1' units='" + S("v1units", "u1") + "' initial_value='" + S("initial_value", "1") + "' public_interface='out' private_interface='out'/>"
         "<variable name='v2' units='u1' public_interface='out'/><variable name='v3' units='u1' initial_value='0'/>"
         "<math xmlns='" + MML + "'><apply><eq/><ci>v2</ci><apply><plus/><ci>v1</ci><cn cellml:units='" + S("cnunits", "u1") + "'>1</cn></apply></apply>"
         "<apply><eq/><apply><diff/><bvar><ci>t</ci></bvar><ci>v3</ci></apply><ci>v2</ci></apply></math></component>\n";
    s += "<component name='c2'><variable name='w' units='" + S("wunits", "u1") + "' public_interface='in'/><variable name='t' units='second' public_interface='in'/></component>\n";
    s += "<component name='env'><variable name='t' units='second' public_interface='out'/></component>\n";
    s += "<group><relationship_ref relationship='encapsulation'/><component_ref component='c1'><component_ref component='c2'/></component_ref></group>\n";
    s += "<group><relationship_ref relationship='containment' name='x'/><component_ref component='c1'><component_ref component='c2'/></component_ref></group>\n";
    s += "<connection><map_components component_1='c1' component_2='c2'/><map_variables variable_1='v1' variable_2='w'/><map_variables variable_1='t' variable_2='t'/></connection>\n";
    s += "<connection><map_components component_1='env' component_2='c1'/><map_variables variable_1='t' variable_2='t'/></connection>\n";
    if (version == "1.1") {
        s += "<import xmlns:xlink='http://www.w3.org/1999/xlink' xlink:href='nosuch.cellml'><component name='imp' component_ref='x'/></import>\n";
    }
    s += "<rdf:RDF xmlns:rdf='http://www.w3.org/1999/02/22-rdf-syntax-ns#'><rdf:Description rdf:about='#mid'/></rdf:RDF>\n</model>\n";
    return expand(s, "second");
}

static std::string document(const J &sc)
{
    std::map<std::string, std::string> sl;
    for (auto &s : sc["slots"].a) {
        sl[s["slot"].str()] = s["value"].str();
    }
    std::string k = sc["skeleton"].str();
    std::string base = valid20({});
    if (k == "valid20") {
        return valid20(sl);
    }
    if (k == "cellml10" || k == "cellml11") {
        return legacy(k == "cellml10" ? "1.0" : "1.1", sl);
    }
    if (k == "html") {
        return "<!DOCTYPE html><html><head><title>t</title></head><body><p>model</p><br></body></html>";
    }
    if (k == "svg") {
        return "<?xml version='1.0'?><svg xmlns='http://www.w3.org/2000/svg'><model name='m'><component name='c'/></model></svg>";
    }
    if (k == "mathonly") {
        return "<?xml version='1.0'?><math xmlns='" + std::string(MML) + "'><apply><eq/><ci>a</ci><ci>b</ci></apply></math>";
    }
    if (k == "empty") {
        return "";
    }
    if (k == "declonly") {
        return "<?xml version='1.0' encoding='UTF-8'?>";
    }
    if (k == "rootonly") {
        return "<model xmlns='" + std::string(NS20) + "'/>";
    }
    if (k == "rootonly10") {
        return "<model xmlns='http://www.cellml.org/cellml/1.0#'/>";
    }
    if (k == "garbage") {
        std::string g;
        unsigned x = 12345;
        for (int i = 0; i < 4096; ++i) {
            x = x * 1103515245u + 12345u;
            g += static_cast<char>((x >> 16) & 0xff);
        }
        return g;
    }
    if (k == "nul") {
        return std::string(64, '\0');
    }
    if (k == "lt") {
        return "<";
    }
    if (k.rfind("cut", 0) == 0) {
        size_t pct = static_cast<size_t>(atoi(k.c_str() + 3));
        return base.substr(0, base.size() * pct / 100);
    }
    if (k == "deepxml") {
        return "<?xml version='1.0'?><model xmlns='" + std::string(NS20) + "' name='m'>" + rep("<component name='c'>", 5000) + rep("</component>", 5000) + "</model>";
    }
    if (k == "wideattrs") {
        std::string a;
        for (int i = 0; i < 5000; ++i) {
            a += " a" + std::to_string(i) + "='" + std::to_string(i) + "'";
        }
        return "<?xml version='1.0'?><model xmlns='" + std::string(NS20) + "' name='m'" + a + "><component name='c'" + a + "/></model>";
    }
    if (k == "hugetext") {
        return "<?xml version='1.0'?><model xmlns='" + std::string(NS20) + "' name='m'>" + rep("text ", 12000) + "<component name='c'>" + rep("x", 60000) + "</component></model>";
    }
    if (k == "latin1bytes") {
        return "<?xml version='1.0' encoding='UTF-8'?><model xmlns='" + std::string(NS20) + "' name='m\xe9\xff\xfe'><component name='c\xc3'/></model>";
    }
    if (k == "utf16bytes") {
        std::string src = "<?xml version='1.0' encoding='UTF-16'?><model xmlns='" + std::string(NS20) + "' name='m'><component name='c'/></model>";
        std::string r = "\xff\xfe";
        for (char c : src) {
            r += c;
            r += '\0';
        }
        return r;
    }
    return base;
}

static void walkAst(const AnalyserEquationAstPtr &ast, size_t &count, int depth)
{
    if (!ast || depth > 100000) {
        return;
    }
    ++count;
    (void)ast->type();
    (void)ast->value();
    (void)ast->variable();
    walkAst(ast->leftChild(), count, depth + 1);
    walkAst(ast->rightChild(), count, depth + 1);
}

static void pipelineDrv(const J &sc, Emitter &out)
{
    std::string text = document(sc);
    if (const char *dump = getenv("VERIF_DUMP_DOC")) { // debugging aid: the document of the (last) scenario
        std::ofstream(dump) << text;
    }
    bool strict = sc["mode"].str() == "strict";
    {
        J b = J::obj();
        b.set("e", "Begin").set("order", sc["order"]).set("mode", sc["mode"]).set("bytes", J(text.size())).set("digest", sha1ish(text));
        if (sc.has("label")) {
            b.set("label", sc["label"]);
        }
        out.emit(b);
    }
    auto call = [&](const std::string &stage) {
        J c = J::obj();
        c.set("e", "Call").set("stage", stage);
        out.emit(c);
    };
    auto ret = [&](const std::string &stage, J extra) {
        J r = J::obj();
        r.set("e", "Return").set("stage", stage);
        for (auto &kv : extra.o) {
            r.set(kv.first, kv.second);
        }
        out.emit(r);
    };
    call("parse");
    auto parser = Parser::create(strict);
    ModelPtr model = parser->parseModel(text);
    {
        J x = J::obj();
        x.set("null", J(model == nullptr)).set("log", loggerObs(parser)).set("errors", J(parser->errorCount()));
        ret("parse", x);
    }
    static const std::map<std::string, std::vector<std::string>> orders = {
        {"canonical", {"validate", "print", "queries", "clone", "repair", "annotate", "resolve", "flatten", "analyse", "generateC", "generatePy", "reprint"}},
        {"analysisFirst", {"print", "analyse", "generateC", "generatePy", "flatten", "resolve", "validate", "queries", "repair", "clone", "annotate", "reprint"}},
        {"importsFirst", {"print", "resolve", "flatten", "queries", "analyse", "generatePy", "generateC", "annotate", "repair", "clone", "validate", "reprint"}}};
    AnalyserModelPtr am;
    ImporterPtr importer = Importer::create(strict);
    std::string dir = "/tmp/vpipe." + std::to_string(getpid());
    mkdir(dir.c_str(), 0700);
    for (auto &stage : orders.at(sc["order"].str())) {
        call(stage);
        J x = J::obj();
        if (stage == "validate") {
            auto v = Validator::create();
            v->validateModel(model);
            x.set("log", loggerObs(v)).set("errors", J(v->errorCount()));
        } else if (stage == "print" || stage == "reprint") {
            auto p = Printer::create();
            std::string s = p->printModel(model);
            std::string s2 = p->printModel(model, true);
            x.set("log", loggerObs(p)).set("digest", sha1ish(s)).set("len", J(s.size())).set("autoIdsLen", J(s2.size()));
        } else if (stage == "queries") {
            size_t n = 0;
            if (model) {
                n += model->hasImports() + model->hasUnresolvedImports() + model->isDefined() + model->hasUnlinkedUnits();
                for (size_t i = 0; i < model->unitsCount(); ++i) {
                    auto u = model->units(i);
                    n += u->isBaseUnit() + u->isDefined() + u->requiresImports() + u->isImport() + u->isResolved();
                    for (size_t j = 0; j < model->unitsCount(); ++j) {
                        auto w = model->units(j);
                        n += Units::compatible(u, w) + Units::equivalent(u, w);
                        double f = Units::scalingFactor(u, w);
                        n += std::isnan(f) ? 1 : 0;
                        f = Units::scalingFactor(u, w, false);
                    }
                    for (size_t j = 0; j < u->unitCount(); ++j) {
                        std::string r, p, id;
                        double e, m;
                        u->unitAttributes(j, r, p, e, m, id);
                        n += r.size();
                    }
                }
                std::function<void(const ComponentPtr &)> walk = [&](const ComponentPtr &c) {
                    n += c->requiresImports() + c->isImport() + c->isResolved() + c->math().size();
                    for (size_t i = 0; i < c->variableCount(); ++i) {
                        auto v = c->variable(i);
                        n += v->equivalentVariableCount() + v->hasInterfaceType(Variable::InterfaceType::PUBLIC);
                        for (size_t j = 0; j < c->variableCount(); ++j) {
                            n += v->hasEquivalentVariable(c->variable(j), true);
                        }
                        n += v->units() ? v->units()->name().size() : 0;
                    }
                    for (size_t i = 0; i < c->resetCount(); ++i) {
                        auto r = c->reset(i);
                        n += r->isOrderSet() + r->testValue().size() + r->resetValue().size();
                    }
                    for (size_t i = 0; i < c->componentCount(); ++i) {
                        walk(c->component(i));
                    }
                };
                for (size_t i = 0; i < model->componentCount(); ++i) {
                    walk(model->component(i));
                }
            }
            x.set("touched", J(n > 0));
        } else if (stage == "clone") {
            if (model) {
                auto c = model->clone();
                x.set("equal", J(model->equals(c) && c->equals(model)));
            }
        } else if (stage == "repair") {
            if (model) {
                auto c = model->clone();
                bool a = c->fixVariableInterfaces();
                bool b = c->linkUnits();
                c->clean();
                x.set("fixed", J(a)).set("linked", J(b));
                auto v = Validator::create();
                v->validateModel(c);
            }
        } else if (stage == "annotate") {
            if (model) {
                auto c = model->clone();
                auto an = Annotator::create();
                an->setModel(c);
                bool a = an->assignAllIds();
                x.set("assigned", J(a)).set("log", loggerObs(an)).set("items", J(an->itemCount("nosuch")));
                an->clearAllIds();
            }
        } else if (stage == "resolve") {
            bool ok = importer->resolveImports(model, dir);
            x.set("resolved", J(ok)).set("log", loggerObs(importer));
        } else if (stage == "flatten") {
            auto flat = importer->flattenModel(model);
            x.set("flatNull", J(flat == nullptr)).set("log", loggerObs(importer));
            if (flat) {
                auto v = Validator::create();
                v->validateModel(flat);
                auto p = Printer::create();
                x.set("flatLen", J(p->printModel(flat).size()));
            }
        } else if (stage == "analyse") {
            auto a = Analyser::create();
            a->analyseModel(model);
            am = a->model();
            size_t nodes = 0;
            if (am) {
                for (size_t i = 0; i < am->equationCount(); ++i) {
                    walkAst(am->equation(i)->ast(), nodes, 0);
                    (void)am->equation(i)->isStateRateBased();
                }
                for (size_t i = 0; i < am->variableCount(); ++i) {
                    (void)am->variable(i)->equationCount();
                }
            }
            x.set("log", loggerObs(a)).set("type", am ? AnalyserModel::typeAsString(am->type()) : std::string("null")).set("valid", J(am && am->isValid())).set("astNodes", J(nodes));
        } else if (stage == "generateC" || stage == "generatePy") {
            auto g = Generator::create();
            if (stage == "generatePy") {
                g->setProfile(GeneratorProfile::create(GeneratorProfile::Profile::PYTHON));
            }
            g->setModel(am);
            std::string h = g->interfaceCode();
            std::string c = g->implementationCode();
            x.set("len", J(h.size() + c.size()));
        }
        ret(stage, x);
    }
    rmdir(dir.c_str());
}

static RegisterDriver reg("pipeline", pipelineDrv);
