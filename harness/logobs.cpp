// Logger observation (C15): everything a user can learn about a service's issue list through public getters.
#include "core.h"

using namespace libcellml;

static const char *levelStr(Issue::Level l)
{
    switch (l) {
    case Issue::Level::ERROR:
        return "E";
    case Issue::Level::WARNING:
        return "W";
    default:
        return "M";
    }
}

std::string ruleName(const IssuePtr &issue)
{
    std::string url = issue->url();
    auto p = url.find("?issue=");
    if (p == std::string::npos) {
        return url.empty() ? "UNDEFINED" : "BADURL";
    }
    return url.substr(p + 7);
}

// matching getter for the stated type returns an object; all other getters return null
static void itemConsistency(const AnyCellmlElementPtr &item, bool &matchOk, bool &othersNull)
{
    auto t = item->type();
    bool c = item->component() != nullptr;
    bool is = item->importSource() != nullptr;
    bool m = item->model() != nullptr;
    bool r = item->reset() != nullptr;
    bool u = item->units() != nullptr;
    bool ui = item->unitsItem() != nullptr;
    bool v = item->variable() != nullptr;
    bool vp = item->variablePair() != nullptr;
    int n = c + is + m + r + u + ui + v + vp;
    bool match = false;
    switch (t) {
    case CellmlElementType::COMPONENT:
    case CellmlElementType::COMPONENT_REF:
        match = c;
        break;
    case CellmlElementType::CONNECTION:
    case CellmlElementType::MAP_VARIABLES:
        match = vp;
        break;
    case CellmlElementType::ENCAPSULATION:
    case CellmlElementType::MODEL:
        match = m;
        break;
    case CellmlElementType::IMPORT:
        match = is;
        break;
    case CellmlElementType::RESET:
    case CellmlElementType::RESET_VALUE:
    case CellmlElementType::TEST_VALUE:
        match = r;
        break;
    case CellmlElementType::UNIT:
        match = ui;
        break;
    case CellmlElementType::UNITS:
        match = u;
        break;
    case CellmlElementType::VARIABLE:
        match = v;
        break;
    case CellmlElementType::MATH: // the stored component of a MATH item has no public getter
    case CellmlElementType::UNDEFINED:
        match = true;
        break;
    }
    matchOk = match;
    othersNull = (n - ((t == CellmlElementType::MATH || t == CellmlElementType::UNDEFINED) ? 0 : (match ? 1 : 0))) == 0;
}

J loggerObs(const LoggerPtr &lg)
{
    J o = J::obj();
    size_t n = lg->issueCount();
    J levels = J::arr();
    J rules = J::arr();
    J types = J::arr();
    bool descOk = true;
    bool urlOk = true;
    bool itemOk = true;
    bool itemExclusive = true;
    std::vector<IssuePtr> all;
    for (size_t i = 0; i < n; ++i) {
        auto is = lg->issue(i);
        all.push_back(is);
        if (!is) {
            levels.push("NULL");
            continue;
        }
        levels.push(levelStr(is->level()));
        std::string rn = ruleName(is);
        rules.push(rn);
        descOk = descOk && !is->description().empty();
        (void)is->referenceHeading();
        urlOk = urlOk && rn != "BADURL";
        auto item = is->item();
        if (!item) {
            types.push("NULLITEM");
            itemOk = false;
        } else {
            types.push(cellmlElementTypeAsString(item->type()));
            bool m = false;
            bool ex = false;
            itemConsistency(item, m, ex);
            itemOk = itemOk && m;
            itemExclusive = itemExclusive && ex;
        }
    }
    auto positions = [&](size_t cnt, const std::function<IssuePtr(size_t)> &get) {
        J p = J::arr();
        for (size_t j = 0; j < cnt; ++j) {
            auto is = get(j);
            long long pos = -1;
            for (size_t i = 0; i < n; ++i) {
                if (is && all[i] == is) {
                    pos = static_cast<long long>(i);
                    break;
                }
            }
            p.push(J(pos));
        }
        return p;
    };
    size_t ne = lg->errorCount();
    size_t nw = lg->warningCount();
    size_t nm = lg->messageCount();
    o.set("n", J(n));
    o.set("levels", levels);
    o.set("ne", J(ne)).set("nw", J(nw)).set("nm", J(nm));
    o.set("errs", positions(ne, [&](size_t j) { return lg->error(j); }));
    o.set("warns", positions(nw, [&](size_t j) { return lg->warning(j); }));
    o.set("msgs", positions(nm, [&](size_t j) { return lg->message(j); }));
    bool oob = lg->issue(n) == nullptr && lg->error(ne) == nullptr && lg->warning(nw) == nullptr && lg->message(nm) == nullptr
               && lg->issue(n + 7) == nullptr && lg->error(ne + 7) == nullptr && lg->warning(nw + 7) == nullptr && lg->message(nm + 7) == nullptr;
    o.set("oob", J(oob));
    o.set("descOk", J(descOk)).set("urlOk", J(urlOk)).set("itemOk", J(itemOk)).set("itemExclusive", J(itemExclusive));
    o.set("rules", rules).set("types", types);
    return o;
}
