// Executor core: driver registry, trace emitter, helpers shared by all drivers.
#pragma once
#include "json.h"

#include <functional>
#include <libcellml>
#include <map>
#include <string>

struct Emitter
{
    FILE *f = nullptr;
    long long sc = 0;
    int step = 0;
    // one trace line per public call; flushed at once so that a crash loses nothing
    void emit(J line)
    {
        J out = J::obj();
        out.set("e", line["e"]);
        out.set("sc", J(sc));
        out.set("i", J(++step));
        for (auto &kv : line.o) {
            if (kv.first != "e") {
                out.set(kv.first, kv.second);
            }
        }
        std::string s = out.dump();
        s += "\n";
        fwrite(s.data(), 1, s.size(), f);
        fflush(f);
    }
};

using Driver = std::function<void(const J &scenario, Emitter &out)>;
std::map<std::string, Driver> &drivers();
struct RegisterDriver
{
    RegisterDriver(const std::string &name, Driver d)
    {
        drivers()[name] = std::move(d);
    }
};

// ---- shared helpers (logobs.cpp, content.cpp) ----
// Logger observation through public getters only (C15); attached to every service call.
J loggerObs(const libcellml::LoggerPtr &logger);
// Canonical content record of a model (Appendix F of DESIGN.md), public getters only.
J contentOf(const libcellml::ModelPtr &model);
std::string normMath(const std::string &math);
std::string fmtDouble(double d);
std::string tok(const std::string &s);   // bytes -> named-token string safe for TLC's JSON reader
std::string untok(const std::string &s); // named tokens -> bytes
std::string sha1ish(const std::string &s);
std::string interfaceStr(const libcellml::VariablePtr &v);
