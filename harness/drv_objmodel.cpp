// Driver "objmodel" (C09): replays ObjectModel command histories on real entities and logs,
// after every call, the result and the abstract state projected through public getters only.
#include "objuniverse.h"

using namespace libcellml;

// ---------------------------------------------------------------------------------- universe
Universe::Universe(bool wide)
{
    auto reg = [&](const std::string &n, const EntityPtr &e, const std::string &kind) {
        held[n] = e;
        weak[n] = e;
        nameOfPtr[e.get()] = n;
        kindOf[n] = kind;
        order.push_back(n);
    };
    for (auto n : {"m1", "m2"}) {
        reg(n, Model::create(n), "model");
    }
    int i = 0;
    for (auto n : {"c1", "c2", "c3"}) {
        reg(n, Component::create(++i == 3 ? "b" : "a"), "comp");
    }
    i = 0;
    for (auto n : {"v1", "v2", "v3"}) {
        reg(n, Variable::create(++i == 3 ? "b" : "a"), "var");
    }
    if (wide) {
        reg("v4", Variable::create("a"), "var");
    }
    i = 0;
    for (auto n : {"u1", "u2", "u3"}) {
        reg(n, Units::create(++i == 3 ? "b" : "a"), "units");
    }
    for (auto n : {"r1", "r2"}) {
        reg(n, Reset::create(), "reset");
    }
}

std::string Universe::nameOf(const EntityPtr &e) const
{
    if (!e) {
        return "none";
    }
    auto it = nameOfPtr.find(e.get());
    return it == nameOfPtr.end() ? "foreign" : it->second;
}

EntityPtr Universe::get(const std::string &n) const
{
    auto it = weak.find(n);
    if (it == weak.end()) {
        return nullptr;
    }
    return it->second.lock();
}

J Universe::project() const
{
    J lists = J::obj();
    J kc = J::obj(), kv = J::obj(), kr = J::obj(), ku = J::obj();
    J parent = J::obj();
    J equiv = J::obj();
    J alive = J::arr();
    J heldNames = J::arr();
    for (auto &n : order) {
        auto e = get(n);
        const std::string &kind = kindOf.at(n);
        if (e) {
            alive.push(n);
        }
        if (held.count(n)) {
            heldNames.push(n);
        }
        if (kind == "model" || kind == "comp") {
            J c = J::arr(), v = J::arr(), r = J::arr(), u = J::arr();
            if (e) {
                auto ce = std::dynamic_pointer_cast<ComponentEntity>(e);
                for (size_t i = 0; i < ce->componentCount(); ++i) {
                    c.push(nameOf(ce->component(i)));
                }
                if (auto comp = std::dynamic_pointer_cast<Component>(e)) {
                    for (size_t i = 0; i < comp->variableCount(); ++i) {
                        v.push(nameOf(comp->variable(i)));
                    }
                    for (size_t i = 0; i < comp->resetCount(); ++i) {
                        r.push(nameOf(comp->reset(i)));
                    }
                }
                if (auto m = std::dynamic_pointer_cast<Model>(e)) {
                    for (size_t i = 0; i < m->unitsCount(); ++i) {
                        u.push(nameOf(m->units(i)));
                    }
                }
            }
            kc.set(n, c);
            kv.set(n, v);
            kr.set(n, r);
            ku.set(n, u);
        }
        std::string p = "none";
        if (e) {
            if (auto pe = std::dynamic_pointer_cast<ParentedEntity>(e)) {
                p = nameOf(pe->parent());
            }
        }
        parent.set(n, p);
        if (kind == "var") {
            J q = J::arr();
            if (e) {
                auto var = std::dynamic_pointer_cast<Variable>(e);
                for (size_t i = 0; i < var->equivalentVariableCount(); ++i) {
                    q.push(nameOf(var->equivalentVariable(i)));
                }
            }
            equiv.set(n, q);
        }
    }
    lists.set("comp", kc).set("var", kv).set("reset", kr).set("units", ku);
    J st = J::obj();
    st.set("lists", lists).set("parent", parent).set("equiv", equiv).set("held", heldNames).set("alive", alive);
    return st;
}

static std::string yn(bool b)
{
    return b ? "ok" : "no";
}

// ---------------------------------------------------------------------------------- one command
std::string Universe::apply(const J &c)
{
    std::string e = c["e"].str();
    std::string k = c["k"].str();
    auto ent = [&](const char *f) { return get(c[f].str()); };
    auto P = ent("p");
    auto ce = std::dynamic_pointer_cast<ComponentEntity>(P);
    auto comp = std::dynamic_pointer_cast<Component>(P);
    auto model = std::dynamic_pointer_cast<Model>(P);
    size_t idx = static_cast<size_t>(c["i"].num());
    std::string n = c["n"].str();
    bool deep = c["deep"].boolean();
    auto X = ent("x");
    auto Y = ent("y");
    auto asC = [](const EntityPtr &x) { return std::dynamic_pointer_cast<Component>(x); };
    auto asV = [](const EntityPtr &x) { return std::dynamic_pointer_cast<Variable>(x); };
    auto asU = [](const EntityPtr &x) { return std::dynamic_pointer_cast<Units>(x); };
    auto asR = [](const EntityPtr &x) { return std::dynamic_pointer_cast<Reset>(x); };

    if (e == "release") {
        held.erase(c["x"].str());
        return "ok";
    }
    if (e == "clean") {
        if (!model) {
            return "unknown-command";
        }
        model->clean();
        return "ok";
    }
    if (e == "addEquiv") {
        return yn(Variable::addEquivalence(asV(X), asV(Y)));
    }
    if (e == "removeEquiv") {
        return yn(Variable::removeEquivalence(asV(X), asV(Y)));
    }
    if (e == "removeAllEquiv") {
        asV(X)->removeAllEquivalences();
        return "ok";
    }
    if (k == "comp") {
        if (e == "add") {
            return yn(ce->addComponent(asC(X)));
        }
        if (e == "removeIdx") {
            return yn(ce->removeComponent(idx));
        }
        if (e == "takeIdx") {
            return nameOf(ce->takeComponent(idx));
        }
        if (e == "removeName") {
            return yn(ce->removeComponent(n, deep));
        }
        if (e == "takeName") {
            return nameOf(ce->takeComponent(n, deep));
        }
        if (e == "removePtr") {
            return yn(ce->removeComponent(asC(X), deep));
        }
        if (e == "replaceIdx") {
            return yn(ce->replaceComponent(idx, asC(Y)));
        }
        if (e == "replaceName") {
            return yn(ce->replaceComponent(n, asC(Y), deep));
        }
        if (e == "replacePtr") {
            return yn(ce->replaceComponent(asC(X), asC(Y), deep));
        }
        if (e == "removeAll") {
            ce->removeAllComponents();
            return "ok";
        }
    } else if (k == "var") {
        if (e == "add") {
            return yn(comp->addVariable(asV(X)));
        }
        if (e == "removeIdx") {
            return yn(comp->removeVariable(idx));
        }
        if (e == "takeIdx") {
            return nameOf(comp->takeVariable(idx));
        }
        if (e == "removeName") {
            return yn(comp->removeVariable(n));
        }
        if (e == "takeName") {
            return nameOf(comp->takeVariable(n));
        }
        if (e == "removePtr") {
            return yn(comp->removeVariable(asV(X)));
        }
        if (e == "removeAll") {
            comp->removeAllVariables();
            return "ok";
        }
    } else if (k == "reset") {
        if (e == "add") {
            return yn(comp->addReset(asR(X)));
        }
        if (e == "removeIdx") {
            return yn(comp->removeReset(idx));
        }
        if (e == "takeIdx") {
            return nameOf(comp->takeReset(idx));
        }
        if (e == "removePtr") {
            return yn(comp->removeReset(asR(X)));
        }
        if (e == "removeAll") {
            comp->removeAllResets();
            return "ok";
        }
    } else if (k == "units") {
        if (e == "add") {
            return yn(model->addUnits(asU(X)));
        }
        if (e == "removeIdx") {
            return yn(model->removeUnits(idx));
        }
        if (e == "takeIdx") {
            return nameOf(model->takeUnits(idx));
        }
        if (e == "removeName") {
            return yn(model->removeUnits(n));
        }
        if (e == "takeName") {
            return nameOf(model->takeUnits(n));
        }
        if (e == "removePtr") {
            return yn(model->removeUnits(asU(X)));
        }
        if (e == "replaceIdx") {
            return yn(model->replaceUnits(idx, asU(Y)));
        }
        if (e == "replaceName") {
            return yn(model->replaceUnits(n, asU(Y)));
        }
        if (e == "replacePtr") {
            return yn(model->replaceUnits(asU(X), asU(Y)));
        }
        if (e == "removeAll") {
            model->removeAllUnits();
            return "ok";
        }
    }
    return "unknown-command";
}

static void objmodel(const J &sc, Emitter &out)
{
    Universe u(sc["wide"].boolean(false));
    for (auto &n : sc["nameless"].a) { // entities without a name (Model::clean() scenarios, specs/ObjectModel/MC_F.cfg)
        if (auto ne = std::dynamic_pointer_cast<NamedEntity>(u.get(n.str()))) {
            ne->setName("");
        }
    }
    for (auto &c : sc["cmds"].a) {
        std::string r = u.apply(c);
        J ev = J::obj();
        ev.set("e", "call").set("c", c).set("r", r).set("st", u.project());
        out.emit(ev);
    }
}

static RegisterDriver reg("objmodel", objmodel);
