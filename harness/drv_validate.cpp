// Driver "validate" (C04): a valid-by-construction abstract model, then one injected rule violation.
#include "build.h"

using namespace libcellml;
std::string ruleName(const IssuePtr &issue);

static J issuesOf(const ValidatorPtr &v)
{
    J r = J::arr();
    for (size_t i = 0; i < v->issueCount(); ++i) {
        auto is = v->issue(i);
        J one = J::obj();
        one.set("lv", is->level() == Issue::Level::ERROR ? "E" : (is->level() == Issue::Level::WARNING ? "W" : "M"));
        one.set("rule", ruleName(is)).set("type", is->item() ? cellmlElementTypeAsString(is->item()->type()) : "NULL");
        r.push(one);
    }
    return r;
}

static void validate(const J &sc, Emitter &out)
{
    Built b = buildModel(sc["am"]);
    bool preApplied = true;
    if (sc["inj"]["pre"].k == J::OBJ) { // a preparation that keeps the model valid (checked by the base validation below)
        preApplied = mutate(b, sc["inj"]["pre"]);
    }
    auto v = Validator::create();
    v->validateModel(b.model);
    J ev = J::obj();
    ev.set("e", "inject").set("fv", sc["fv"]).set("inj", sc["inj"]);
    ev.set("baseIssues", issuesOf(v));
    bool applied = sc["inj"]["mut"].k == J::OBJ ? mutate(b, sc["inj"]["mut"]) : true;
    ev.set("applied", J(applied && preApplied));
    auto v2 = Validator::create();
    v2->validateModel(b.model);
    ev.set("issues", issuesOf(v2)).set("log", loggerObs(v2));
    // validation must not modify the model
    std::string before = contentOf(b.model).dump();
    v2->validateModel(b.model);
    ev.set("unchanged", J(contentOf(b.model).dump() == before));
    out.emit(ev);
}

static RegisterDriver reg("validate", validate);
