// Driver "repair" (C19): Model::fixVariableInterfaces, Model::linkUnits, Model::clean on TLC-generated situations.
#include "core.h"

using namespace libcellml;
std::string ruleName(const IssuePtr &issue);

static std::string ifaceOut(const VariablePtr &v)
{
    std::string s = v->interfaceType();
    if (s.empty()) {
        return "none";
    }
    return s == "none" ? "none_" : s;
}

static void fixif(const J &sc, Emitter &out)
{
    auto m = Model::create("m");
    std::map<std::string, ComponentPtr> c;
    std::map<std::string, VariablePtr> v;
    for (auto n : {"a", "b", "c", "d"}) {
        c[n] = Component::create(n);
    }
    m->addComponent(c["a"]);
    c["a"]->addComponent(c["b"]);
    c["b"]->addComponent(c["c"]);
    m->addComponent(c["d"]);
    for (auto n : {"a", "b", "c", "d", "p"}) {
        auto var = Variable::create(std::string("v") + n);
        var->setUnits("dimensionless");
        std::string s = sc["ifaces"][n].str("none");
        if (s != "none") {
            var->setInterfaceType(s == "none_" ? std::string("none") : s);
        }
        if (std::string(n) != "p") {
            c[n]->addVariable(var);
        }
        v[n] = var;
    }
    for (auto &p : sc["pairs"].a) {
        Variable::addEquivalence(v[p[0].str()], v[p[1].str()]);
    }
    J ev = J::obj();
    ev.set("e", "fixif").set("c", sc).set("pairs", sc["pairs"]);
    J pre = J::obj(), post = J::obj();
    for (auto &kv : v) {
        pre.set(kv.first, ifaceOut(kv.second));
    }
    bool r = m->fixVariableInterfaces();
    for (auto &kv : v) {
        post.set(kv.first, ifaceOut(kv.second));
    }
    auto val = Validator::create();
    val->validateModel(m);
    long long interfaceIssues = 0;
    for (size_t i = 0; i < val->issueCount(); ++i) {
        std::string d = val->issue(i)->description();
        // issues about the interface needed by an equivalence (not the syntax of an interface attribute)
        if (ruleName(val->issue(i)) == "MAP_VARIABLES_ELEMENT" && (d.find("interface") != std::string::npos || d.find("neither siblings") != std::string::npos)) {
            ++interfaceIssues;
        }
    }
    ev.set("r", J(r)).set("pre", pre).set("post", post).set("interfaceIssues", J(interfaceIssues));
    out.emit(ev);
}

static void link(const J &sc, Emitter &out)
{
    auto m = Model::create("m");
    auto u1 = Units::create("u1");
    u1->addUnit("second", "milli", 1.0, 1.0, "");
    m->addUnits(u1);
    auto other = Model::create("other");
    auto foreignSame = Units::create("u1");
    foreignSame->addUnit("second", "milli", 1.0, 1.0, "");
    other->addUnits(foreignSame);
    auto foreignOther = Units::create("elsewhere");
    other->addUnits(foreignOther);
    auto comp = Component::create("c");
    auto child = Component::create("cc");
    m->addComponent(comp);
    comp->addComponent(child);
    std::vector<VariablePtr> vars;
    size_t i = 0;
    for (auto &s : sc["sit"].a) {
        auto var = Variable::create("v" + std::to_string(i));
        std::string k = s.str();
        if (k == "own") {
            var->setUnits(u1);
        } else if (k == "string") {
            var->setUnits("u1");
        } else if (k == "missing") {
            var->setUnits("nosuch");
        } else if (k == "foreignSame") {
            var->setUnits(foreignSame);
        } else if (k == "foreignOther") {
            var->setUnits(foreignOther);
        } else if (k == "standard") {
            var->setUnits("volt");
        }
        (i == 2 ? child : comp)->addVariable(var);
        vars.push_back(var);
        ++i;
    }
    std::string before = contentOf(m).dump();
    J ev = J::obj();
    ev.set("e", "link").set("c", sc).set("sit", sc["sit"]);
    ev.set("unlinkedBefore", J(m->hasUnlinkedUnits()));
    bool r = m->linkUnits();
    ev.set("r", J(r)).set("unlinkedAfter", J(m->hasUnlinkedUnits()));
    J holds = J::arr();
    for (auto &var : vars) {
        holds.push(J(var->units() == u1));
    }
    ev.set("holdsOwn", holds).set("contentUnchanged", J(contentOf(m).dump() == before));
    out.emit(ev);
}

static ComponentPtr makeNode(const std::string &kind, int idx)
{
    auto c = Component::create();
    if (kind == "named") {
        c->setName("n" + std::to_string(idx));
    } else if (kind == "idOnly") {
        c->setId("id" + std::to_string(idx));
    } else if (kind == "varOnly") {
        c->addVariable(Variable::create("v"));
    } else if (kind == "mathOnly") {
        c->setMath("<math xmlns=\"http://www.w3.org/1998/Math/MathML\"/>");
    } else if (kind == "resetOnly") {
        c->addReset(Reset::create());
    } else if (kind == "import") {
        auto is = ImportSource::create();
        is->setUrl("lib.cellml");
        c->setSourceComponent(is, "c");
    }
    return c;
}

static void clean(const J &sc, Emitter &out)
{
    static const std::map<std::string, std::vector<int>> shapes = {{"chain", {0, 1, 2}}, {"fork", {0, 1, 1}}, {"flat", {0, 0, 0}}, {"pair", {0, 1, 0}}};
    auto shape = shapes.at(sc["shape"].str());
    auto m = Model::create("m");
    // something non-empty that must survive untouched
    auto keep = Component::create("keep");
    keep->addVariable(Variable::create("kv"));
    m->addComponent(keep);
    auto ku = Units::create("ku");
    ku->addUnit("second");
    m->addUnits(ku);
    std::vector<ComponentPtr> nodes;
    for (size_t i = 0; i < 3; ++i) {
        nodes.push_back(makeNode(sc["kinds"][i].str(), static_cast<int>(i)));
    }
    for (size_t i = 0; i < 3; ++i) {
        if (shape[i] == 0) {
            m->addComponent(nodes[i]);
        } else {
            nodes[static_cast<size_t>(shape[i] - 1)]->addComponent(nodes[i]);
        }
    }
    std::vector<UnitsPtr> us;
    size_t i = 0;
    for (auto &k : sc["ukinds"].a) {
        auto u = Units::create();
        std::string kind = k.str();
        if (kind == "named") {
            u->setName("un" + std::to_string(i));
        } else if (kind == "idOnly") {
            u->setId("uid" + std::to_string(i));
        } else if (kind == "childOnly") {
            u->addUnit("metre");
        } else if (kind == "import") {
            auto is = ImportSource::create();
            is->setUrl("lib.cellml");
            u->setSourceUnits(is, "u");
        }
        m->addUnits(u);
        us.push_back(u);
        ++i;
    }
    auto digest = [&](const ComponentPtr &c) {
        return c->name() + "|" + c->id() + "|" + std::to_string(c->variableCount()) + "|" + std::to_string(c->resetCount()) + "|" + c->math() + "|" + std::to_string(c->isImport());
    };
    std::vector<std::string> before;
    for (auto &nd : nodes) {
        before.push_back(digest(nd));
    }
    std::string keepBefore = digest(keep) + ku->name() + std::to_string(ku->unitCount());
    m->clean();
    J ev = J::obj();
    ev.set("e", "clean").set("c", sc).set("shape", sc["shape"]).set("kinds", sc["kinds"]).set("ukinds", sc["ukinds"]);
    J present = J::arr();
    bool rest = keep->parent() == m && m->hasUnits(ku) && (digest(keep) + ku->name() + std::to_string(ku->unitCount())) == keepBefore;
    for (size_t k = 0; k < 3; ++k) {
        // still in the model: reachable from the model through parent links
        EntityPtr cur = nodes[k];
        bool in = false;
        for (int depth = 0; depth < 5 && cur; ++depth) {
            auto pe = std::dynamic_pointer_cast<ParentedEntity>(cur);
            if (!pe) {
                break;
            }
            auto p = pe->parent();
            if (p == m) {
                // and listed by the model
                in = true;
                break;
            }
            cur = p;
        }
        if (in) {
            // every link of the chain must also be listed by its parent
            ComponentPtr c = nodes[k];
            auto parent = std::dynamic_pointer_cast<ComponentEntity>(c->parent());
            in = parent && parent->containsComponent(c, false);
        }
        present.push(J(in));
        rest = rest && digest(nodes[k]) == before[k];
    }
    J upresent = J::arr();
    for (auto &u : us) {
        upresent.push(J(m->hasUnits(u) && u->parent() == m));
    }
    ev.set("present", present).set("upresent", upresent).set("restUnchanged", J(rest));
    out.emit(ev);
}

static void repair(const J &sc, Emitter &out)
{
    std::string op = sc["op"].str();
    if (op == "fixif") {
        fixif(sc, out);
    } else if (op == "link") {
        link(sc, out);
    } else {
        clean(sc, out);
    }
}

static RegisterDriver reg("repair", repair);
