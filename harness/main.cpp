// executor <driver> <scenarios.ndjson> <trace.ndjson> [--timeout S] [--batch N]
// Runs every scenario against the real library in forked children (crash / hang isolation).
#include "core.h"

#include <csignal>
#include <cstring>
#include <exception>
#include <fstream>
#include <iostream>
#include <sys/mman.h>
#include <sys/resource.h>
#include <sys/wait.h>
#include <unistd.h>

std::map<std::string, Driver> &drivers()
{
    static std::map<std::string, Driver> d;
    return d;
}

struct Shared
{
    volatile long cur;
    volatile long scId;
    volatile int step;
};
static Shared *gShared = nullptr;
static FILE *gTrace = nullptr;

static void onTerminate()
{
    // an uncaught exception is an event of the trace, not a truncated file
    std::string what = "unknown";
    if (auto e = std::current_exception()) {
        try {
            std::rethrow_exception(e);
        } catch (const std::exception &ex) {
            what = ex.what();
        } catch (...) {
        }
    }
    J line = J::obj();
    line.set("e", "Crash").set("sc", J(static_cast<long long>(gShared->scId))).set("i", J(gShared->step + 1)).set("sig", J(0)).set("what", J(std::string("uncaught exception: ") + what));
    std::string s = line.dump() + "\n";
    fwrite(s.data(), 1, s.size(), gTrace);
    fflush(gTrace);
    _exit(77);
}

int main(int argc, char **argv)
{
    if (argc < 4) {
        std::cerr << "usage: executor <driver> <scenarios> <trace> [--timeout S]\n";
        return 2;
    }
    std::string drv = argv[1];
    int timeoutS = 60;
    bool isolate = false; // one fresh process per scenario (C12: no history carried between scenarios)
    for (int i = 4; i + 1 < argc; i += 2) {
        if (!strcmp(argv[i], "--timeout")) {
            timeoutS = atoi(argv[i + 1]);
        }
        if (!strcmp(argv[i], "--isolate")) {
            isolate = atoi(argv[i + 1]) != 0;
        }
    }
    auto it = drivers().find(drv);
    if (it == drivers().end()) {
        std::cerr << "unknown driver " << drv << "\n";
        return 2;
    }
    std::vector<std::string> lines;
    {
        std::ifstream in(argv[2]);
        std::string l;
        while (std::getline(in, l)) {
            if (!l.empty()) {
                lines.push_back(l);
            }
        }
    }
    gTrace = fopen(argv[3], "w");
    if (!gTrace) {
        perror("trace");
        return 2;
    }
    gShared = static_cast<Shared *>(mmap(nullptr, sizeof(Shared), PROT_READ | PROT_WRITE, MAP_SHARED | MAP_ANONYMOUS, -1, 0));
    std::string errPath = std::string(argv[3]) + ".stderr";
    long n = static_cast<long>(lines.size());
    long start = 0;
    long crashes = 0;
    while (start < n) {
        fflush(gTrace);
        pid_t pid = fork();
        if (pid == 0) {
            FILE *e = freopen(errPath.c_str(), "a", stderr);
            (void)e;
            std::set_terminate(onTerminate);
            Emitter out;
            out.f = gTrace;
            for (long i = start; i < (isolate ? start + 1 : n); ++i) {
                gShared->cur = i;
                J sc = parseJson(lines[static_cast<size_t>(i)]);
                out.sc = sc["sc"].num(i);
                out.step = 0;
                gShared->scId = out.sc;
                gShared->step = 0;
                alarm(static_cast<unsigned>(timeoutS));
                J reset = J::obj();
                reset.set("e", "Reset");
                out.emit(reset);
                it->second(sc, out);
                alarm(0);
            }
            fflush(gTrace);
            _exit(0);
        }
        int status = 0;
        waitpid(pid, &status, 0);
        if (WIFEXITED(status) && WEXITSTATUS(status) == 0) {
            if (isolate && start + 1 < n) {
                ++start;
                continue;
            }
            break;
        }
        ++crashes;
        fseek(gTrace, 0, SEEK_END);
        if (!(WIFEXITED(status) && WEXITSTATUS(status) == 77)) { // 77: the child logged the crash itself
            J line = J::obj();
            bool hang = WIFSIGNALED(status) && WTERMSIG(status) == SIGALRM;
            line.set("e", hang ? "Hang" : "Crash").set("sc", J(static_cast<long long>(gShared->scId))).set("i", J(0));
            line.set("sig", J(WIFSIGNALED(status) ? WTERMSIG(status) : 0)).set("exit", J(WIFEXITED(status) ? WEXITSTATUS(status) : -1));
            line.set("what", J(hang ? "timeout" : "child died"));
            std::string s = line.dump() + "\n";
            fwrite(s.data(), 1, s.size(), gTrace);
            fflush(gTrace);
        }
        start = gShared->cur + 1;
    }
    fclose(gTrace);
    std::cerr << "executor: " << n << " scenarios, " << crashes << " abnormal child exits\n";
    return 0;
}
