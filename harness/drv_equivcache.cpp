// Driver "equivcache" (C18): equivalence queries on real variables against the connection graph; and the same
// queries with the Variable objects placed at chosen addresses (the executor's operator new hands out an address
// of a page it mapped there), so that address pairs colliding under the modelled cache key meet the real code.
#include "core.h"

#include <cstdlib>
#include <new>
#include <sys/mman.h>

using namespace libcellml;

// ---------------------------------------------------------------------------------- placement of the next Variable
static bool gArmed = false;
static void *gNextAddress = nullptr;
static size_t gArmedSize = 0;
static const uintptr_t ARENA_LOW = 0x100000000000ULL;
static const uintptr_t ARENA_HIGH = 0x6f0000000000ULL;

void *operator new(std::size_t n)
{
    if (gArmed && n == gArmedSize) {
        gArmed = false;
        return gNextAddress;
    }
    void *p = std::malloc(n ? n : 1);
    if (!p) {
        throw std::bad_alloc();
    }
    return p;
}
// pages mapped for placed objects (a fixed table: operator delete must not allocate)
static uintptr_t gPlacedPage[4096];
static size_t gPlacedLen[4096];
static size_t gPlacedCount = 0;

void operator delete(void *p) noexcept
{
    auto a = reinterpret_cast<uintptr_t>(p);
    if (a >= ARENA_LOW && a < ARENA_HIGH) { // only then can it be a placed object (the ordinary heap of a PIE binary lies in this range too)
        for (size_t i = 0; i < gPlacedCount; ++i) {
            if (a >= gPlacedPage[i] && a < gPlacedPage[i] + gPlacedLen[i]) {
                return; // placed objects live in pages that are simply left mapped
            }
        }
    }
    std::free(p);
}
void operator delete(void *p, std::size_t) noexcept
{
    operator delete(p);
}

static VariablePtr variableAt(uintptr_t address, const std::string &name, bool &ok)
{
    uintptr_t page = address & ~static_cast<uintptr_t>(4095);
    size_t len = ((address + sizeof(Variable) + 4095) & ~static_cast<uintptr_t>(4095)) - page;
    static std::map<uintptr_t, size_t> mapped; // pages this process already mapped for an earlier scenario are reused
    if (!mapped.count(page)) {
        void *m = mmap(reinterpret_cast<void *>(page), len, PROT_READ | PROT_WRITE, MAP_PRIVATE | MAP_ANONYMOUS | MAP_FIXED_NOREPLACE, -1, 0);
        if (m == MAP_FAILED || m != reinterpret_cast<void *>(page)) {
            ok = false;
            return Variable::create(name);
        }
        mapped[page] = len;
        if (gPlacedCount < 4096) {
            gPlacedPage[gPlacedCount] = page;
            gPlacedLen[gPlacedCount] = len;
            ++gPlacedCount;
        } else {
            ok = false;
        }
    }
    gNextAddress = reinterpret_cast<void *>(address);
    gArmedSize = sizeof(Variable);
    gArmed = true;
    auto v = Variable::create(name);
    gArmed = false;
    ok = ok && reinterpret_cast<uintptr_t>(v.get()) == address;
    return v;
}

static AnalyserModelPtr someAnalyserModel()
{
    auto m = Model::create("m");
    auto c = Component::create("c");
    auto v = Variable::create("x");
    v->setUnits("dimensionless");
    v->setInitialValue("1");
    c->addVariable(v);
    m->addComponent(c);
    auto a = Analyser::create();
    a->analyseModel(m);
    return a->model();
}

static void equivcache(const J &sc, Emitter &out)
{
    std::string kind = sc["kind"].str();
    auto am = someAnalyserModel();
    auto model = Model::create("g");
    std::vector<VariablePtr> vars;
    J ev = J::obj();
    ev.set("e", "queries").set("kind", kind);
    bool placed = true;
    size_t n = static_cast<size_t>(sc["n"].num(4));
    std::vector<ComponentPtr> comps;
    for (size_t i = 0; i < n; ++i) {
        // homes (optional): the component each variable lives in; by default every variable has a component of its own
        size_t home = sc["homes"].k == J::ARR ? static_cast<size_t>(sc["homes"][i].num()) : i;
        while (comps.size() <= std::max(home, i)) {
            auto nc = Component::create("c" + std::to_string(comps.size()));
            model->addComponent(nc);
            comps.push_back(nc);
        }
        auto c = comps[home];
        VariablePtr v;
        if (kind == "collision") {
            v = variableAt(static_cast<uintptr_t>(strtoull(sc["addr"][i].str().c_str(), nullptr, 10)), "x", placed);
        } else {
            v = Variable::create("x" + std::to_string(i));
        }
        v->setUnits("dimensionless");
        c->addVariable(v);
        vars.push_back(v);
    }
    for (auto &e : sc["edges"].a) {
        Variable::addEquivalence(vars[static_cast<size_t>(e[0].num())], vars[static_cast<size_t>(e[1].num())]);
    }
    J answers = J::arr();
    for (auto &q : sc["queries"].a) {
        auto a = vars[static_cast<size_t>(q[1].num())];
        auto b = vars[static_cast<size_t>(q[2].num())];
        bool r;
        if (q[0].str() == "cut") {
            r = Variable::removeEquivalence(a, b);
            am = someAnalyserModel(); // an analyser model describes the variables as they were when it was made
        } else if (q[0].str() == "join") {
            r = Variable::addEquivalence(a, b);
            am = someAnalyserModel();
        } else {
            r = q[0].str() == "am" ? am->areEquivalentVariables(a, b) : a->hasEquivalentVariable(b, true);
        }
        answers.push(J(r));
    }
    ev.set("n", J(n)).set("edges", sc["edges"]).set("queries", sc["queries"]).set("answers", answers).set("placed", J(placed));
    if (kind == "collision") {
        ev.set("limbs", sc["limbs"]).set("fam", sc["fam"]);
    }
    out.emit(ev);
}

static RegisterDriver reg("equivcache", equivcache);
