// Driver "system" (C05, and the system level of C03 / C17 / C20): a TLC-generated system of equations with roles
// known by construction is written as a CellML model (two components working in seconds / milliseconds, classes
// realised as connected variables), analysed in several orderings / renamings, and - when asked - generated,
// compiled and run.
#include "codegen.h"

#include <cstring>

#include <algorithm>
#include <cmath>
#include <set>

using namespace libcellml;
std::string ruleName(const IssuePtr &issue);

struct Variant
{
    bool revEq = false, revVars = false, compBA = false;
    bool cross = false; // in component B the classes x1 and x2 go by each other's name
    bool comments = false; // a comment in front of every operator and every variable name
    bool initElsewhere = false; // a state or constant that component B reads carries its initial value on B's copy (in B's units)
    std::string prefix;
};

static const char *NS = "http://www.cellml.org/cellml/2.0#";
static const char *MMLNS = "http://www.w3.org/1998/Math/MathML";

static std::string unitsOf(const std::string &comp)
{
    return comp == "B" ? "ms" : "second";
}

static std::string writeModel(const J &sys, const Variant &vr, const J &externals)
{
    (void)externals;
    const J &classes = sys["classes"];
    std::string nla = sys["nla"].str("none");
    bool hasStates = false;
    std::map<std::string, std::string> home;
    for (auto &c : classes.a) {
        home[c["name"].str()] = c["home"].str();
        hasStates = hasStates || c["role"].str() == "state";
    }
    // which names each component needs
    std::map<std::string, std::vector<std::string>> vars; // comp -> names (home first, then copies)
    std::map<std::string, std::set<std::string>> seen;
    auto need = [&](const std::string &comp, const std::string &n) {
        if (seen[comp].insert(n).second) {
            vars[comp].push_back(n);
        }
    };
    if (hasStates) {
        need("A", "t");
    }
    for (auto &c : classes.a) {
        need(c["home"].str(), c["name"].str());
    }
    for (auto &c : classes.a) {
        for (auto &d : c["deps"].a) {
            need(c["home"].str(), d.str());
        }
    }
    std::string nlaDep = sys["nlaDep"].str("none");
    if (nla != "none") {
        if (nlaDep != "none") {
            need("A", nlaDep);
        }
        need("A", "u");
        if (nla == "pair" || nla == "mixed") {
            need("A", "w");
        }
    }
    home["t"] = "A";
    home["u"] = "A";
    home["w"] = "A";
    auto P = [&](const std::string &n) { return vr.prefix + n; };
    auto V = [&](const std::string &n, const std::string &comp) {
        std::string m = n;
        if (vr.cross && comp == "B") {
            m = n == "x1" ? "x2" : (n == "x2" ? "x1" : n);
        }
        return vr.prefix + m;
    };
    std::string faultKind = sys["fault"]["kind"].str("none");
    std::string faultName = sys["fault"]["name"].str("none");
    std::map<std::string, std::string> compText;
    for (auto comp : {"A", "B"}) {
        if (!vars.count(comp)) {
            continue;
        }
        auto names = vars[comp];
        if (vr.revVars) {
            std::reverse(names.begin(), names.end());
        }
        std::string s = "<component name=\"" + P(comp) + "\">\n";
        for (auto &n : names) {
            std::string init;
            if (home[n] == comp) {
                for (auto &c : classes.a) {
                    if (c["name"].str() == n && (c["role"].str() == "const" || c["role"].str() == "state")) {
                        init = " initial_value=\"" + std::to_string(c["init"].num()) + "\"";
                        if ((faultKind == "stateNoInit" || faultKind == "constNoInit") && faultName == n) {
                            init = "";
                        }
                    }
                    if (c["name"].str() == n && faultKind == "computedAndInitialised" && faultName == n) {
                        init = " initial_value=\"7\"";
                    }
                }
                if (vr.initElsewhere && !init.empty() && seen["B"].count(n) && comp == "A" && n != "u" && n != "w") {
                    init = ""; // the copy in B carries it
                }
                // implicit systems with several unknowns need initial guesses (the NLA solver starts from them)
                if ((n == "u" || n == "w") && (nla == "guess" || nla == "pair")) {
                    init = " initial_value=\"1\"";
                }
                if (n == "w" && nla == "mixed") {
                    init = " initial_value=\"1\"";
                }
            }
            if (vr.initElsewhere && home[n] == "A" && comp == "B" && faultName != n) {
                for (auto &c : classes.a) {
                    if (c["name"].str() == n && (c["role"].str() == "const" || c["role"].str() == "state")) {
                        init = " initial_value=\"" + std::to_string(c["init"].num() * 1000) + "\""; // B works in milliseconds
                    }
                }
            }
            s += "  <variable name=\"" + V(n, comp) + "\" units=\"" + unitsOf(comp) + "\"" + init + " interface=\"public\"/>\n";
        }
        std::vector<std::string> eqs;
        for (auto &c : classes.a) {
            if (c["home"].str() != comp || c["role"].str() == "const") {
                continue;
            }
            std::string rhs = "<apply><plus/><cn cellml:units=\"" + unitsOf(comp) + "\">" + std::to_string(c["k"].num()) + "</cn>";
            for (auto &d : c["deps"].a) {
                rhs += "<ci>" + V(d.str(), comp) + "</ci>";
            }
            rhs += "</apply>";
            if (c["deps"].size() == 0) {
                rhs = "<cn cellml:units=\"" + unitsOf(comp) + "\">" + std::to_string(c["k"].num()) + "</cn>";
            } else if (c["k"].num() == 0) { // no constant term: a bare <ci> or a sum of <ci>
                rhs = "";
                for (auto &d : c["deps"].a) {
                    rhs += "<ci>" + V(d.str(), comp) + "</ci>";
                }
                if (c["deps"].size() > 1) {
                    rhs = "<apply><plus/>" + rhs + "</apply>";
                }
            }
            std::string lhs = "<ci>" + V(c["name"].str(), comp) + "</ci>";
            if (c["role"].str() == "state") {
                if (faultKind == "diffOfSum" && faultName == c["name"].str()) { // the derivative of an expression: d(x + 0)/dt
                    lhs = "<apply><plus/>" + lhs + "<cn cellml:units=\"" + unitsOf(comp) + "\">0</cn></apply>";
                }
                lhs = "<apply><diff/><bvar><ci>" + P("t") + "</ci></bvar>" + lhs + "</apply>";
            }
            eqs.push_back("<apply><eq/>" + lhs + rhs + "</apply>");
            if ((faultKind == "duplicateEquation" || faultKind == "duplicateOde") && faultName == c["name"].str()) {
                eqs.push_back("<apply><eq/>" + lhs + "<cn cellml:units=\"" + unitsOf(comp) + "\">77</cn></apply>");
            }
        }
        if (std::string(comp) == "A" && nla != "none") {
            auto cn = [&](int v) { return "<cn cellml:units=\"second\">" + std::to_string(v) + "</cn>"; };
            if (nla == "mixed") { // u + u = 8 (one unknown), u + w = 6 (w has an initial guess): u = 4, w = 2
                eqs.push_back("<apply><eq/><apply><plus/><ci>" + P("u") + "</ci><ci>" + P("u") + "</ci></apply>" + cn(8) + "</apply>");
                eqs.push_back("<apply><eq/><apply><plus/><ci>" + P("u") + "</ci><ci>" + P("w") + "</ci></apply>" + cn(6) + "</apply>");
            } else if (nla == "pair") {
                eqs.push_back("<apply><eq/><apply><plus/><ci>" + P("u") + "</ci><ci>" + P("w") + "</ci></apply>" + cn(5) + "</apply>");
                eqs.push_back("<apply><eq/><apply><minus/><ci>" + P("u") + "</ci><ci>" + P("w") + "</ci></apply>" + cn(1) + "</apply>");
            } else if (nlaDep != "none") { // u + u = 8 + dep: u follows a state or the variable of integration
                eqs.push_back("<apply><eq/><apply><plus/><ci>" + P("u") + "</ci><ci>" + P("u") + "</ci></apply><apply><plus/>" + cn(8) + "<ci>" + P(nlaDep) + "</ci></apply></apply>");
            } else {
                eqs.push_back("<apply><eq/><apply><plus/><ci>" + P("u") + "</ci><ci>" + P("u") + "</ci></apply>" + cn(8) + "</apply>");
            }
        }
        if (vr.revEq) {
            std::reverse(eqs.begin(), eqs.end());
        }
        if (!eqs.empty()) {
            s += "  <math xmlns=\"" + std::string(MMLNS) + "\">\n";
            for (auto e : eqs) {
                if (vr.comments) {
                    for (const char *tag : {"<apply>", "<ci>", "<bvar>"}) {
                        size_t at = 0;
                        while ((at = e.find(tag, at)) != std::string::npos) {
                            at += strlen(tag);
                            e.insert(at, "<!-- c -->");
                        }
                    }
                }
                s += "    " + e + "\n";
            }
            s += "  </math>\n";
        }
        s += "</component>\n";
        compText[comp] = s;
    }
    std::string text = "<?xml version=\"1.0\" encoding=\"UTF-8\"?>\n<model xmlns=\"" + std::string(NS) + "\" xmlns:cellml=\"" + NS + "\" name=\"sys\">\n";
    text += "<units name=\"ms\"><unit units=\"second\" prefix=\"milli\"/></units>\n";
    if (vr.compBA) {
        text += compText["B"] + compText["A"];
    } else {
        text += compText["A"] + compText["B"];
    }
    if (vars.count("A") && vars.count("B")) {
        std::string maps;
        for (auto &n : vars["B"]) {
            if (seen["A"].count(n)) {
                maps += "<map_variables variable_1=\"" + V(n, "A") + "\" variable_2=\"" + V(n, "B") + "\"/>";
            }
        }
        if (!maps.empty()) {
            text += "<connection component_1=\"" + P("A") + "\" component_2=\"" + P("B") + "\">" + maps + "</connection>\n";
        }
    }
    text += "</model>\n";
    return text;
}

static std::string stripPrefix(const std::string &s, const std::string &p)
{
    return (!p.empty() && s.rfind(p, 0) == 0) ? s.substr(p.size()) : s;
}

static bool owningModelIs(const VariablePtr &v, const ModelPtr &m)
{
    ParentedEntityPtr p = v->parent();
    while (p) {
        if (p == m) {
            return true;
        }
        p = p->parent();
    }
    return false;
}

// classification summary: model type + per analyser variable (class name, component, type, kind/index)
static J summarise(const AnalyserModelPtr &am, const std::string &prefix, bool full, bool cross = false)
{
    J r = J::obj();
    r.set("type", AnalyserModel::typeAsString(am->type()));
    J vars = J::arr();
    std::map<const AnalyserVariable *, std::string> idOf;
    auto add = [&](const AnalyserVariablePtr &av, const std::string &kind) {
        J v = J::obj();
        auto var = av->variable();
        auto comp = std::dynamic_pointer_cast<Component>(var->parent());
        std::string id = kind + std::to_string(av->index());
        idOf[av.get()] = id;
        std::string cname = comp ? stripPrefix(comp->name(), prefix) : "none";
        std::string vname = stripPrefix(var->name(), prefix);
        if (cross && cname == "B") {
            vname = vname == "x1" ? "x2" : (vname == "x2" ? "x1" : vname);
        }
        v.set("id", id).set("kind", kind).set("index", J(av->index())).set("name", vname);
        v.set("comp", cname).set("type", AnalyserVariable::typeAsString(av->type()));
        v.set("units", var->units() ? var->units()->name() : "none");
        vars.push(v);
    };
    if (am->voi()) {
        add(am->voi(), "voi");
    }
    for (size_t i = 0; i < am->stateCount(); ++i) {
        add(am->state(i), "s");
    }
    for (size_t i = 0; i < am->variableCount(); ++i) {
        add(am->variable(i), "v");
    }
    r.set("vars", vars);
    {
        // order-independent signature: per class, its type, the types of its equations, whether they are state / rate based and
        // which classes the equations they depend on compute
        std::map<const AnalyserVariable *, std::string> nameOfVar;
        size_t k = 0;
        auto note = [&](const AnalyserVariablePtr &av) { nameOfVar[av.get()] = vars[k++]["name"].str(); };
        if (am->voi()) {
            note(am->voi());
        }
        for (size_t i = 0; i < am->stateCount(); ++i) {
            note(am->state(i));
        }
        for (size_t i = 0; i < am->variableCount(); ++i) {
            note(am->variable(i));
        }
        std::vector<std::string> sig;
        auto one = [&](const AnalyserVariablePtr &av) {
            std::set<std::string> types, deps;
            bool rateBased = false;
            for (size_t e = 0; e < av->equationCount(); ++e) {
                auto eq = av->equation(e);
                if (!eq) {
                    continue;
                }
                types.insert(AnalyserEquation::typeAsString(eq->type()));
                rateBased = rateBased || eq->isStateRateBased();
                for (size_t d = 0; d < eq->dependencyCount(); ++d) {
                    auto dep = eq->dependency(d);
                    for (size_t v = 0; dep && v < dep->variableCount(); ++v) {
                        deps.insert(nameOfVar.count(dep->variable(v).get()) ? nameOfVar[dep->variable(v).get()] : std::string("?"));
                    }
                }
            }
            std::string line = nameOfVar[av.get()] + ":" + AnalyserVariable::typeAsString(av->type()) + ":";
            for (auto &t : types) {
                line += t + ",";
            }
            line += rateBased ? ":rb:" : ":-:";
            for (auto &d : deps) {
                line += d + ",";
            }
            sig.push_back(line);
        };
        for (size_t i = 0; i < am->stateCount(); ++i) {
            one(am->state(i));
        }
        for (size_t i = 0; i < am->variableCount(); ++i) {
            one(am->variable(i));
        }
        std::sort(sig.begin(), sig.end());
        J sj = J::arr();
        for (auto &x : sig) {
            sj.push(x);
        }
        r.set("sig", sj);
    }
    if (full) {
        std::map<const AnalyserEquation *, long long> eqIdx;
        for (size_t i = 0; i < am->equationCount(); ++i) {
            eqIdx[am->equation(i).get()] = static_cast<long long>(i);
        }
        J eqs = J::arr();
        for (size_t i = 0; i < am->equationCount(); ++i) {
            auto eq = am->equation(i);
            J e = J::obj();
            e.set("type", AnalyserEquation::typeAsString(eq->type()));
            J ev = J::arr();
            for (size_t k = 0; k < eq->variableCount(); ++k) {
                ev.push(idOf.count(eq->variable(k).get()) ? idOf[eq->variable(k).get()] : std::string("?"));
            }
            J deps = J::arr();
            for (size_t k = 0; k < eq->dependencyCount(); ++k) {
                deps.push(J(eqIdx.count(eq->dependency(k).get()) ? eqIdx[eq->dependency(k).get()] : -1LL));
            }
            J sib = J::arr();
            for (size_t k = 0; k < eq->nlaSiblingCount(); ++k) {
                sib.push(J(eqIdx.count(eq->nlaSibling(k).get()) ? eqIdx[eq->nlaSibling(k).get()] : -1LL));
            }
            e.set("vars", ev).set("deps", deps).set("siblings", sib).set("rateBased", J(eq->isStateRateBased()));
            eqs.push(e);
        }
        r.set("eqs", eqs);
        // per analyser variable: the equations that compute it
        J comp = J::obj();
        auto one = [&](const AnalyserVariablePtr &av) {
            J a = J::arr();
            for (size_t k = 0; k < av->equationCount(); ++k) {
                a.push(J(eqIdx.count(av->equation(k).get()) ? eqIdx[av->equation(k).get()] : -1LL));
            }
            comp.set(idOf[av.get()], a);
        };
        for (size_t i = 0; i < am->stateCount(); ++i) {
            one(am->state(i));
        }
        for (size_t i = 0; i < am->variableCount(); ++i) {
            one(am->variable(i));
        }
        r.set("computedBy", comp);
    }
    return r;
}

static double q(const J &x)
{
    return static_cast<double>(x["n"].num()) / static_cast<double>(x["d"].num(1));
}

static bool closeTo(double obs, double exp, double tol)
{
    return !std::isnan(obs) && std::fabs(obs - exp) <= tol * std::max(1.0, std::fabs(exp));
}

// C20: the system is analysed without and with the marks of the scenario; the marked analysis is generated, and run
// in two steps with a callback returning the values the specification chose for each external class.
static void extDrv(const J &sc, Emitter &out)
{
    const J &sys = sc["sys"];
    J ev = J::obj();
    ev.set("e", "ext").set("sys", sys).set("expect", sc["expect"]);
    Variant vr;
    std::string text = writeModel(sys, vr, J());
    std::map<std::string, std::string> home;
    for (auto &c : sys["classes"].a) {
        home[c["name"].str()] = c["home"].str();
    }
    home["u"] = "A";
    auto model = Parser::create(true)->parseModel(text);
    auto other = Parser::create(true)->parseModel(text);
    auto validator = Validator::create();
    validator->validateModel(model);
    ev.set("validErrors", J(validator->errorCount()));
    {
        auto analyser = Analyser::create();
        analyser->analyseModel(model);
        J s = summarise(analyser->model(), "", true);
        s.set("analyserErrors", J(analyser->errorCount()));
        ev.set("plain", s);
    }
    auto analyser = Analyser::create();
    J applied = J::arr();
    std::map<std::string, AnalyserExternalVariablePtr> firstOf;
    for (auto &mk : sys["marks"].a) {
        std::string n = mk["name"].str();
        VariablePtr v;
        if (n == "foreign") {
            v = other->componentCount() > 0 ? other->component(0)->variable(0) : nullptr;
        } else {
            auto comp = model->component(mk["comp"].str());
            v = comp ? comp->variable(n) : nullptr;
        }
        J a = J::obj();
        a.set("name", n).set("comp", mk["comp"]).set("found", J(v != nullptr));
        if (v) {
            auto xv = AnalyserExternalVariable::create(v);
            J depOk = J::arr();
            for (auto &d : mk["deps"].a) {
                auto dc = model->component(home[d.str()]);
                auto dv = dc ? dc->variable(d.str()) : nullptr;
                depOk.push(J(dv != nullptr && xv->addDependency(dv)));
            }
            a.set("depsAdded", depOk).set("added", J(analyser->addExternalVariable(xv)));
        }
        applied.push(a);
    }
    ev.set("applied", applied);
    analyser->analyseModel(model);
    auto am = analyser->model();
    J s = summarise(am, "", true);
    s.set("analyserErrors", J(analyser->errorCount())).set("analyserWarnings", J(analyser->warningCount())).set("alog", loggerObs(analyser));
    J msgs = J::arr();
    for (size_t i = 0; i < analyser->issueCount(); ++i) {
        auto is = analyser->issue(i);
        if (is->level() == Issue::Level::WARNING && is->referenceRule() == Issue::ReferenceRule::ANALYSER_UNITS) {
            continue;
        }
        J m = J::obj();
        auto iv = is->item() ? is->item()->variable() : nullptr;
        auto ic = iv ? std::dynamic_pointer_cast<Component>(iv->parent()) : nullptr;
        m.set("level", std::string(is->level() == Issue::Level::ERROR ? "E" : is->level() == Issue::Level::WARNING ? "W" : "M")).set("rule", ruleName(is)).set("var", iv ? iv->name() : "none").set("comp", ic ? ic->name() : "none")
            .set("own", J(iv && owningModelIs(iv, model)));
        msgs.push(m);
    }
    s.set("issues", msgs);
    if (analyser->errorCount() > 0) {
        s.set("firstError", tok(analyser->error(0)->description()).substr(0, 240));
    }
    ev.set("marked", s);
    if (am && am->isValid()) {
        auto gen = Generator::create();
        gen->setModel(am);
        std::string h = gen->interfaceCode();
        std::string c = gen->implementationCode();
        gen->setProfile(GeneratorProfile::create(GeneratorProfile::Profile::PYTHON));
        std::string py = gen->implementationCode();
        auto expOf = [&](const std::string &name) -> const J * {
            for (auto &e : sc["expect"].a) {
                if (e["name"].str() == name) {
                    return &e;
                }
            }
            return nullptr;
        };
        ExtPlan plan;
        std::map<long, std::string> nameOfVar, nameOfState;
        for (auto &av : s["vars"].a) {
            long idx = static_cast<long>(av["index"].num());
            if (av["kind"].str() == "v") {
                nameOfVar[idx] = av["name"].str();
                if (av["type"].str() == "external") {
                    const J *e = expOf(av["name"].str());
                    std::string comp = av["comp"].str();
                    plan.values[idx] = {e ? q((*e)[comp]) : -1.0, e ? q((*e)[comp + "2"]) : -2.0};
                }
            } else if (av["kind"].str() == "s") {
                nameOfState[idx] = av["name"].str();
            }
        }
        GenRun rc = runGeneratedC(h, c, &plan);
        GenRun rp = runGeneratedPython(py, &plan);
        ev.set("c", genRunToJson(rc)).set("py", genRunToJson(rp));
        ev.set("usesCallback", J(h.find("ExternalVariable") != std::string::npos)).set("pyUsesCallback", J(py.find("external_variable") != std::string::npos));
        J flags = J::arr();
        for (auto &av : s["vars"].a) {
            if (av["kind"].str() == "voi") {
                continue;
            }
            J f = J::obj();
            f.set("name", av["name"]).set("comp", av["comp"]).set("type", av["type"]);
            const J *e = expOf(av["name"].str());
            size_t idx = static_cast<size_t>(av["index"].num());
            bool isState = av["kind"].str() == "s";
            auto at = [&](const std::vector<double> &v) { return idx < v.size() ? v[idx] : NAN; };
            std::string comp = av["comp"].str();
            if (e) {
                double w1 = q((*e)[comp]), w2 = q((*e)[comp + "2"]);
                double tol = sys["nla"].str("none") == "none" ? 1e-9 : 1e-6; // a root found numerically, and what reads it
                bool ok1 = closeTo(at(isState ? rc.states : rc.variables), w1, tol) && closeTo(at(isState ? rp.states : rp.variables), w1, tol);
                bool ok2 = closeTo(at(isState ? rc.states2 : rc.variables2), w2, tol) && closeTo(at(isState ? rp.states2 : rp.variables2), w2, tol);
                if (!rc.variables2.size() && !rc.states2.size()) { // no callback in the generated code: no second step was run
                    ok2 = closeTo(w1, w2, 1e-12);
                }
                if (isState) {
                    double r1 = q((*e)["rate"]), r2 = q((*e)["rate2"]);
                    ok1 = ok1 && closeTo(at(rc.rates), r1, tol) && closeTo(at(rp.rates), r1, tol);
                    if (rc.states2.size()) {
                        ok2 = ok2 && closeTo(at(rc.rates2), r2, tol) && closeTo(at(rp.rates2), r2, tol);
                    }
                }
                f.set("known", J(true)).set("ok1", J(ok1)).set("ok2", J(ok2));
            } else if (av["name"].str() == "u" || av["name"].str() == "w") { // the implicit unknown, not marked: u = 4
                bool ok = closeTo(at(rc.variables), 4.0, 1e-6) && closeTo(at(rp.variables), 4.0, 1e-6);
                bool okb = !rc.variables2.size() || (closeTo(at(rc.variables2), 4.0, 1e-6) && closeTo(at(rp.variables2), 4.0, 1e-6));
                f.set("known", J(true)).set("ok1", J(ok)).set("ok2", J(okb));
            } else {
                f.set("known", J(false)).set("ok1", J(false)).set("ok2", J(false));
            }
            char buf[96];
            snprintf(buf, sizeof buf, "%.12g / %.12g", at(isState ? rc.states : rc.variables), at(isState ? rc.states2 : rc.variables2));
            f.set("obsC", std::string(buf));
            flags.push(f);
        }
        ev.set("values", flags);
        // callback invocations, slots translated to class names
        auto calls = [&](const GenRun &r) {
            J a = J::arr();
            for (auto &cl : r.extCalls) {
                J o = J::obj();
                o.set("phase", J(cl.phase)).set("name", nameOfVar.count(cl.index) ? nameOfVar[cl.index] : std::string("?"));
                J d = J::arr();
                for (int k : cl.definedVariables) {
                    if (k >= 0 && nameOfVar.count(k)) {
                        d.push(nameOfVar[k]);
                    } else if (k < 0 && nameOfState.count(-1 - k)) {
                        d.push(nameOfState[-1 - k]);
                    }
                }
                o.set("defined", d);
                a.push(o);
            }
            return a;
        };
        ev.set("callsC", calls(rc)).set("callsPy", calls(rp));
    }
    out.emit(ev);
}

static void systemDrv(const J &sc, Emitter &out)
{
    if (sc["ext"].boolean(false)) {
        extDrv(sc, out);
        return;
    }
    const J &sys = sc["sys"];
    J ev = J::obj();
    ev.set("e", "system").set("sys", sys).set("run", sc["run"]).set("expect", sc["expect"]);
    std::vector<Variant> variants(8);
    variants[6].cross = true;
    variants[7].initElsewhere = variants[7].compBA = true;
    variants[1].revEq = true;
    variants[2].revVars = true;
    variants[3].compBA = true;
    variants[4].prefix = "q_";
    variants[4].comments = true;
    variants[5].revEq = variants[5].revVars = variants[5].compBA = true;
    variants[5].prefix = "zz";
    J vs = J::arr();
    AnalyserModelPtr baseAm;
    ModelPtr baseModel;
    for (size_t i = 0; i < variants.size(); ++i) {
        auto parser = Parser::create(true);
        auto model = parser->parseModel(writeModel(sys, variants[i], sc["externals"]));
        auto validator = Validator::create();
        validator->validateModel(model);
        auto analyser = Analyser::create();
        analyser->analyseModel(model);
        J s = summarise(analyser->model(), variants[i].prefix, i == 0, variants[i].cross);
        s.set("validErrors", J(validator->errorCount())).set("analyserErrors", J(analyser->errorCount()));
        if (i == 0) {
            s.set("alog", loggerObs(analyser));
            if (analyser->errorCount() > 0) {
                s.set("firstError", tok(analyser->error(0)->description()).substr(0, 240));
            }
            if (validator->errorCount() > 0) {
                s.set("firstValidError", tok(validator->error(0)->description()).substr(0, 240));
            }
            baseAm = analyser->model();
            baseModel = model;
        }
        vs.push(s);
    }
    ev.set("variants", vs);
    if (sc["run"].boolean(false) && baseAm && baseAm->isValid()) {
        auto gen = Generator::create();
        gen->setModel(baseAm);
        std::string h = gen->interfaceCode();
        std::string c = gen->implementationCode();
        gen->setProfile(GeneratorProfile::create(GeneratorProfile::Profile::PYTHON));
        std::string py = gen->implementationCode();
        GenRun rc = runGeneratedC(h, c);
        GenRun rp = runGeneratedPython(py);
        ev.set("c", genRunToJson(rc)).set("py", genRunToJson(rp));
        // value flags: every class, in the units of the component of its analyser variable
        J flags = J::arr();
        const J &base = vs[0];
        for (auto &av : base["vars"].a) {
            if (av["kind"].str() == "voi") {
                continue;
            }
            J f = J::obj();
            f.set("id", av["id"]).set("name", av["name"]).set("comp", av["comp"]);
            const J *exp = nullptr;
            for (auto &e : sc["expect"].a) {
                if (e["name"].str() == av["name"].str()) {
                    exp = &e;
                }
            }
            size_t idx = static_cast<size_t>(av["index"].num());
            bool isState = av["kind"].str() == "s";
            auto pick = [&](const GenRun &r) { return isState ? (idx < r.states.size() ? r.states[idx] : NAN) : (idx < r.variables.size() ? r.variables[idx] : NAN); };
            auto pickRate = [&](const GenRun &r) { return idx < r.rates.size() ? r.rates[idx] : NAN; };
            double tol = sys["nla"].str("none") == "none" ? 1e-9 : 1e-7; // values behind an implicit equation come from the Newton solver
            if (exp) {
                double want = q((*exp)[av["comp"].str()]);
                f.set("okC", J(closeTo(pick(rc), want, tol))).set("okPy", J(closeTo(pick(rp), want, tol)));
                auto pick2 = [&](const GenRun &r) { return isState ? (idx < r.states2.size() ? r.states2[idx] : NAN) : (idx < r.variables2.size() ? r.variables2[idx] : NAN); };
                bool stepped = !rc.variables2.empty() || !rc.states2.empty(); // models without states are not run a second time
                double want2 = q((*exp)[av["comp"].str() + "2"]);
                f.set("ok2C", J(!stepped || closeTo(pick2(rc), want2, tol))).set("ok2Py", J(!stepped || closeTo(pick2(rp), want2, tol)));
                if (isState) {
                    double wr = q((*exp)["rate"]);
                    f.set("rateOkC", J(closeTo(pickRate(rc), wr, tol))).set("rateOkPy", J(closeTo(pickRate(rp), wr, tol)));
                    double wr2 = q((*exp)["rate2"]);
                    f.set("rate2OkC", J(idx < rc.rates2.size() && closeTo(rc.rates2[idx], wr2, tol))).set("rate2OkPy", J(idx < rp.rates2.size() && closeTo(rp.rates2[idx], wr2, tol)));
                }
            } else { // unknowns of the implicit equations: u = 4 (one / guess), u = 3 and w = 2 (pair)
                std::string nla = sys["nla"].str();
                double want = av["name"].str() == "w" ? 2.0 : (nla == "pair" ? 3.0 : 4.0); // pair: u = 3, w = 2; one / guess / mixed: u = 4 (mixed: w = 2)
                f.set("okC", J(closeTo(pick(rc), want, 1e-6))).set("okPy", J(closeTo(pick(rp), want, 1e-6))).set("ok2C", J(true)).set("ok2Py", J(true));
            }
            char buf[64];
            snprintf(buf, sizeof buf, "%.12g", pick(rc));
            f.set("obsC", std::string(buf));
            flags.push(f);
        }
        ev.set("values", flags);
    }
    out.emit(ev);
}

static RegisterDriver reg("system", systemDrv);
