// The fixed small universe of entities used by the ObjectModel drivers (names as in specs/ObjectModel).
#pragma once
#include "core.h"

#include <vector>

struct Universe
{
    std::map<std::string, libcellml::EntityPtr> held; // handles the "user" still holds
    std::map<std::string, std::weak_ptr<libcellml::Entity>> weak; // every entity ever created
    std::map<const void *, std::string> nameOfPtr;
    std::map<std::string, std::string> kindOf;
    std::vector<std::string> order;

    explicit Universe(bool wide = false); // wide: a fourth variable (specs/ObjectModel/MC_EquivList)
    std::string nameOf(const libcellml::EntityPtr &e) const;
    libcellml::EntityPtr get(const std::string &n) const;
    J project() const; // abstract state through public getters only
    std::string apply(const J &cmd); // one public call; result as "ok"/"no"/entity name/"none"
};
