// Compile-and-run of generated code: see codegen.h.
#include "codegen.h"

#include <cmath>
#include <dirent.h>
#include <fstream>
#include <regex>
#include <sstream>
#include <sys/stat.h>
#include <sys/wait.h>
#include <unistd.h>

static std::string slurp(const std::string &p)
{
    std::ifstream f(p);
    std::stringstream b;
    b << f.rdbuf();
    return b.str();
}

static void rmTree(const std::string &dir)
{
    if (DIR *d = opendir(dir.c_str())) {
        while (auto *e = readdir(d)) {
            std::string n = e->d_name;
            if (n == "." || n == "..") {
                continue;
            }
            std::string p = dir + "/" + n;
            struct stat st;
            if (stat(p.c_str(), &st) == 0 && S_ISDIR(st.st_mode)) {
                rmTree(p);
            } else {
                unlink(p.c_str());
            }
        }
        closedir(d);
    }
    rmdir(dir.c_str());
}

static int sh(const std::string &cmd)
{
    int rc = system(cmd.c_str());
    return WIFEXITED(rc) ? WEXITSTATUS(rc) : 255;
}

// parameter list of a function declared in the interface, e.g. "double voi, double *states, ..."
static std::string paramsOf(const std::string &header, const std::string &fn)
{
    std::regex re("void\\s+" + fn + "\\(([^)]*)\\)\\s*;");
    std::smatch m;
    if (std::regex_search(header, m, re)) {
        return m[1].str();
    }
    return "<absent>";
}

static std::string callArgs(const std::string &params)
{
    std::string args;
    std::stringstream ss(params);
    std::string p;
    while (std::getline(ss, p, ',')) {
        std::string a;
        if (p.find("externalVariable") != std::string::npos) {
            a = "ext";
        } else if (p.find("voi") != std::string::npos) {
            a = "voi";
        } else if (p.find("states") != std::string::npos) {
            a = "states";
        } else if (p.find("rates") != std::string::npos) {
            a = "rates";
        } else if (p.find("variables") != std::string::npos) {
            a = "variables";
        } else {
            a = "0";
        }
        args += (args.empty() ? "" : ", ") + a;
    }
    return args;
}

static std::vector<std::string> functionNames(const std::string &code, bool definitions)
{
    // declarations end with ");" in the interface; definitions are followed by "{" on the next line in the implementation
    std::vector<std::string> r;
    std::regex re(definitions ? "(?:^|\\n)(?:[A-Za-z_][A-Za-z0-9_ ]*[ \\*]+)([A-Za-z_][A-Za-z0-9_]*)\\(([^;{]*)\\)\\s*\\n\\{"
                              : "(?:^|\\n)(?:[A-Za-z_][A-Za-z0-9_ ]*[ \\*]+)([A-Za-z_][A-Za-z0-9_]*)\\(([^;{]*)\\);");
    for (auto it = std::sregex_iterator(code.begin(), code.end(), re); it != std::sregex_iterator(); ++it) {
        std::string params = (*it)[2].str();
        params = std::regex_replace(params, std::regex("\\s+"), " ");
        r.push_back((*it)[1].str() + "(" + params + ")");
    }
    return r;
}

static void parseReport(const std::string &report, GenRun &r)
{
    std::stringstream ss(report);
    std::string line;
    while (std::getline(ss, line)) {
        std::stringstream ls(line);
        std::string tag;
        ls >> tag;
        if (tag == "COUNT") {
            std::string what;
            long n;
            ls >> what >> n;
            if (what == "state") {
                r.stateCount = n;
                r.hasStates = true;
            } else {
                r.variableCount = n;
            }
        } else if (tag == "INFO") {
            std::string kind;
            long idx;
            ls >> kind >> idx;
            std::string rest;
            std::getline(ls, rest);
            if (!rest.empty() && rest[0] == ' ') {
                rest.erase(0, 1);
            }
            std::vector<std::string> f;
            std::stringstream rs(rest);
            std::string x;
            while (std::getline(rs, x, '\t')) {
                f.push_back(x);
            }
            f.resize(5);
            InfoRow row {f[0], f[1], f[2], f[3]};
            if (f[4] == "0") {
                r.infoFits = false;
            }
            if (kind == "voi") {
                r.voiInfo = row;
                r.hasVoi = true;
            } else if (kind == "state") {
                r.stateInfo.push_back(row);
            } else {
                r.variableInfo.push_back(row);
            }
        } else if (tag == "VAL" || tag == "VAL2") {
            std::string kind;
            long idx;
            std::string v;
            ls >> kind >> idx >> v;
            double d = (v == "nan" || v == "-nan") ? NAN : strtod(v.c_str(), nullptr);
            bool second = tag == "VAL2";
            auto &vec = kind == "S" ? (second ? r.states2 : r.states) : (kind == "R" ? (second ? r.rates2 : r.rates) : (second ? r.variables2 : r.variables));
            if (static_cast<long>(vec.size()) <= idx) {
                vec.resize(static_cast<size_t>(idx + 1), NAN);
            }
            vec[static_cast<size_t>(idx)] = d;
        } else if (tag == "EXT") {
            ExtCall c;
            ls >> c.phase >> c.index;
            int k;
            while (ls >> k) {
                c.definedVariables.push_back(k);
            }
            r.extCalls.push_back(c);
        } else if (tag == "RES") {
            std::string v;
            ls >> v;
            r.residuals.push_back(strtod(v.c_str(), nullptr));
        } else if (tag == "DONE") {
            r.ran = true;
        }
    }
}

GenRun runGeneratedC(const std::string &header, const std::string &impl, const ExtPlan *plan)
{
    GenRun r;
    char tmpl[] = "/tmp/vgenXXXXXX";
    std::string dir = mkdtemp(tmpl);
    std::ofstream(dir + "/model.h") << header;
    std::string implFixed = impl;
    // the implementation includes its interface under the name given to the profile (default "model.h")
    std::ofstream(dir + "/model.c") << implFixed;
    bool ode = header.find("STATE_COUNT") != std::string::npos;
    bool ext = header.find("ExternalVariable") != std::string::npos;
    bool nla = impl.find("nlaSolve") != std::string::npos;
    std::string pInit = paramsOf(header, "initialiseVariables");
    std::string pCC = paramsOf(header, "computeComputedConstants");
    std::string pRates = paramsOf(header, "computeRates");
    std::string pVars = paramsOf(header, "computeVariables");
    std::ostringstream m;
    m << "#include \"model.h\"\n#include <math.h>\n#include <stdio.h>\n#include <string.h>\n#include <stdlib.h>\n";
    m << "static double *gStates = 0, *gRates = 0, *gVariables = 0;\nstatic int gPhase = 0, gStep = 0;\n";
    if (ext) {
        std::string sig = ode ? "double voi, double *states, double *rates, double *variables, size_t index" : "double *variables, size_t index";
        m << "static double ext(" << sig << ")\n{\n    printf(\"EXT %d %zu\", gPhase, index);\n"
          << "    for (size_t i = 0; i < VARIABLE_COUNT; ++i) if (!isnan(variables[i])) printf(\" %zu\", i);\n";
        if (ode) {
            m << "    for (size_t i = 0; i < STATE_COUNT; ++i) if (!isnan(states[i])) printf(\" %d\", -1 - (int) i);\n    (void) voi; (void) rates;\n";
        }
        m << "    printf(\"\\n\");\n";
        if (plan) {
            m.precision(17);
            for (auto &kv : plan->values) {
                m << "    if (index == " << kv.first << ") return gStep ? " << kv.second[1] << " : " << kv.second[0] << ";\n";
            }
        }
        m << "    return 100.0 + (double) index;\n}\n";
    }
    if (nla) {
        // Newton iteration with a finite-difference Jacobian and Gaussian elimination (systems here have n <= 8)
        m << "void nlaSolve(void (*f)(double *, double *, void *), double *u, size_t n, void *data)\n{\n"
             "    double F[8], F2[8], Jm[8][9], du[8];\n    for (size_t i = 0; i < n; ++i) if (isnan(u[i])) u[i] = 0.1;\n"
             "    for (int it = 0; it < 100; ++it) {\n        f(u, F, data);\n        double nrm = 0; for (size_t i = 0; i < n; ++i) nrm += fabs(F[i]);\n        if (nrm < 1e-13) break;\n"
             "        for (size_t j = 0; j < n; ++j) { double h = 1e-7 * (fabs(u[j]) + 1.0); double s = u[j]; u[j] = s + h; f(u, F2, data); u[j] = s; for (size_t i = 0; i < n; ++i) Jm[i][j] = (F2[i] - F[i]) / h; }\n"
             "        for (size_t i = 0; i < n; ++i) Jm[i][n] = -F[i];\n"
             "        for (size_t c = 0; c < n; ++c) { size_t p = c; for (size_t q = c + 1; q < n; ++q) if (fabs(Jm[q][c]) > fabs(Jm[p][c])) p = q; if (fabs(Jm[p][c]) < 1e-300) break;\n"
             "            for (size_t k = 0; k <= n; ++k) { double t = Jm[c][k]; Jm[c][k] = Jm[p][k]; Jm[p][k] = t; }\n"
             "            for (size_t q = c + 1; q < n; ++q) { double fct = Jm[q][c] / Jm[c][c]; for (size_t k = c; k <= n; ++k) Jm[q][k] -= fct * Jm[c][k]; } }\n"
             "        for (size_t ii = n; ii-- > 0;) { double s = Jm[ii][n]; for (size_t k = ii + 1; k < n; ++k) s -= Jm[ii][k] * du[k]; du[ii] = s / Jm[ii][ii]; }\n"
             "        for (size_t i = 0; i < n; ++i) u[i] += du[i];\n    }\n"
             "    f(u, F, data);\n    for (size_t i = 0; i < n; ++i) printf(\"RES %.17g\\n\", fabs(F[i]));\n}\n";
    }
    m << "static void info(const char *kind, size_t i, const VariableInfo *v)\n{\n"
         "    int fits = memchr(v->name, 0, sizeof v->name) && memchr(v->units, 0, sizeof v->units) && memchr(v->component, 0, sizeof v->component);\n"
         "    printf(\"INFO %s %zu %.*s\\t%.*s\\t%.*s\\t%d\\t%d\\n\", kind, i, (int) sizeof v->name, v->name, (int) sizeof v->units, v->units, (int) sizeof v->component, v->component, (int) v->type, fits);\n}\n";
    m << "int main(void)\n{\n    double voi = 0.0;\n    (void) voi;\n";
    if (ode) {
        m << "    printf(\"COUNT state %zu\\n\", STATE_COUNT);\n    info(\"voi\", 0, &VOI_INFO);\n    for (size_t i = 0; i < STATE_COUNT; ++i) info(\"state\", i, &STATE_INFO[i]);\n";
        m << "    double *states = createStatesArray();\n    double *rates = createStatesArray();\n    gStates = states; gRates = rates;\n"
             "    for (size_t i = 0; i < STATE_COUNT; ++i) states[i] = rates[i] = NAN;\n";
    }
    m << "    printf(\"COUNT variable %zu\\n\", VARIABLE_COUNT);\n    for (size_t i = 0; i < VARIABLE_COUNT; ++i) info(\"variable\", i, &VARIABLE_INFO[i]);\n";
    m << "    double *variables = createVariablesArray();\n    gVariables = variables;\n    for (size_t i = 0; i < VARIABLE_COUNT; ++i) variables[i] = NAN;\n";
    if (pInit != "<absent>") {
        m << "    gPhase = 0;\n    initialiseVariables(" << callArgs(pInit) << ");\n";
    }
    if (pCC != "<absent>") {
        m << "    computeComputedConstants(" << callArgs(pCC) << ");\n";
    }
    if (pRates != "<absent>") {
        m << "    gPhase = 2;\n    computeRates(" << callArgs(pRates) << ");\n";
    }
    if (pVars != "<absent>") {
        m << "    gPhase = 3;\n    computeVariables(" << callArgs(pVars) << ");\n";
    }
    if (ode) {
        m << "    for (size_t i = 0; i < STATE_COUNT; ++i) { printf(\"VAL S %zu %.17g\\n\", i, states[i]); printf(\"VAL R %zu %.17g\\n\", i, rates[i]); }\n";
    }
    m << "    for (size_t i = 0; i < VARIABLE_COUNT; ++i) printf(\"VAL V %zu %.17g\\n\", i, variables[i]);\n";
    if (ode || (plan && ext)) {
        // second step, as after an integrator step: the states have moved on (+5), the callback returns its second value
        // set; computeVariables alone must bring every variable up to date; computeRates then gives the new rates
        m << "    gStep = 1;\n";
        if (ode) {
            m << "    for (size_t i = 0; i < STATE_COUNT; ++i) states[i] += 5.0;\n";
        }
        if (pVars != "<absent>") {
            m << "    gPhase = 4;\n    computeVariables(" << callArgs(pVars) << ");\n";
        }
        m << "    for (size_t i = 0; i < VARIABLE_COUNT; ++i) printf(\"VAL2 V %zu %.17g\\n\", i, variables[i]);\n";
        if (ode && pRates != "<absent>") {
            m << "    gPhase = 5;\n    computeRates(" << callArgs(pRates) << ");\n";
            m << "    for (size_t i = 0; i < STATE_COUNT; ++i) { printf(\"VAL2 S %zu %.17g\\n\", i, states[i]); printf(\"VAL2 R %zu %.17g\\n\", i, rates[i]); }\n";
        }
    }
    m << "    deleteArray(variables);\n";
    if (ode) {
        m << "    deleteArray(states);\n    deleteArray(rates);\n";
    }
    m << "    printf(\"DONE\\n\");\n    return 0;\n}\n";
    std::ofstream(dir + "/main.c") << m.str();
    // the generated code alone, with the diagnostics the property talks about
    int rc = sh("cd " + dir + " && cc -std=c99 -O0 -Wall -Wextra -c model.c -o model.o 2> diag.txt");
    std::string diag = slurp(dir + "/diag.txt");
    std::string kept;
    {
        std::stringstream ds(diag);
        std::string line;
        while (std::getline(ds, line)) {
            bool isDiag = line.find("warning:") != std::string::npos || line.find("error:") != std::string::npos;
            if (isDiag && line.find("-Wunused-parameter") == std::string::npos && line.find("-Wunused-variable") == std::string::npos
                && line.find("-Wunused-but-set-variable") == std::string::npos) {
                kept += line + "\n";
            }
        }
    }
    r.diagnostics = kept;
    if (rc == 0) {
        rc = sh("cd " + dir + " && cc -std=c99 -O0 -w main.c model.o -lm -o run 2> link.txt");
        if (rc != 0) {
            r.diagnostics += "LINK: " + slurp(dir + "/link.txt").substr(0, 600);
        }
    }
    r.built = rc == 0;
    if (r.built) {
        sh("cd " + dir + " && timeout 20 ./run > out.txt 2>&1");
        parseReport(slurp(dir + "/out.txt"), r);
    }
    r.declared = functionNames(header, false);
    r.defined = functionNames(impl, true);
    rmTree(dir);
    return r;
}

GenRun runGeneratedPython(const std::string &impl, const ExtPlan *plan)
{
    GenRun r;
    char tmpl[] = "/tmp/vgpyXXXXXX";
    std::string dir = mkdtemp(tmpl);
    std::ofstream(dir + "/model.py") << impl;
    std::ofstream(dir + "/nlasolver.py") << R"PY(
from math import isnan
def nla_solve(f, u, n, data):
    u = [0.1 if isnan(x) else x for x in u]
    F = [0.0] * n
    for it in range(100):
        f(u, F, data)
        if sum(abs(x) for x in F) < 1e-13:
            break
        J = [[0.0] * (n + 1) for _ in range(n)]
        for j in range(n):
            h = 1e-7 * (abs(u[j]) + 1.0)
            s = u[j]
            u[j] = s + h
            F2 = [0.0] * n
            f(u, F2, data)
            u[j] = s
            for i in range(n):
                J[i][j] = (F2[i] - F[i]) / h
        for i in range(n):
            J[i][n] = -F[i]
        for c in range(n):
            p = max(range(c, n), key=lambda q: abs(J[q][c]))
            if abs(J[p][c]) < 1e-300:
                break
            J[c], J[p] = J[p], J[c]
            for q in range(c + 1, n):
                fct = J[q][c] / J[c][c]
                for k in range(c, n + 1):
                    J[q][k] -= fct * J[c][k]
        du = [0.0] * n
        for i in reversed(range(n)):
            s = J[i][n] - sum(J[i][k] * du[k] for k in range(i + 1, n))
            du[i] = s / J[i][i]
        u = [u[i] + du[i] for i in range(n)]
    f(u, F, data)
    for x in F:
        print("RES %.17g" % abs(x))
    return u
)PY";
    {
        std::ostringstream pl;
        pl.precision(17);
        pl << "PLAN = {";
        if (plan) {
            for (auto &kv : plan->values) {
                pl << kv.first << ": (" << kv.second[0] << ", " << kv.second[1] << "), ";
            }
        }
        pl << "}\nHAS_PLAN = " << (plan ? "True" : "False") << "\n";
        std::ofstream(dir + "/plan.py") << pl.str();
    }
    std::ofstream(dir + "/main.py") << R"PY(
import inspect, math, sys
import model
from plan import PLAN, HAS_PLAN
phase = 0
step = 0
voi = 0.0
def fmt(x):
    return "nan" if isinstance(x, float) and math.isnan(x) else "%.17g" % x
def info(kind, i, v):
    print("INFO %s %d %s\t%s\t%s\t%d\t1" % (kind, i, v["name"], v["units"], v["component"], v["type"].value))
ode = hasattr(model, "STATE_COUNT")
states = rates = None
if ode:
    print("COUNT state %d" % model.STATE_COUNT)
    info("voi", 0, model.VOI_INFO)
    for i, v in enumerate(model.STATE_INFO):
        info("state", i, v)
    states = model.create_states_array()
    rates = model.create_states_array()
print("COUNT variable %d" % model.VARIABLE_COUNT)
for i, v in enumerate(model.VARIABLE_INFO):
    info("variable", i, v)
variables = model.create_variables_array()
def ext(*a):
    index = a[-1]
    vs = a[-2]
    line = "EXT %d %d" % (phase, index) + "".join(" %d" % i for i, x in enumerate(vs) if not math.isnan(x))
    if ode:
        line += "".join(" %d" % (-1 - i) for i, x in enumerate(a[1]) if not math.isnan(x))
    print(line)
    if index in PLAN:
        return PLAN[index][step]
    return 100.0 + index
used_ext = False
def call(name, ph):
    global phase, used_ext
    phase = ph
    f = getattr(model, name, None)
    if f is None:
        return
    if "external_variable" in inspect.signature(f).parameters:
        used_ext = True
    args = []
    for p in inspect.signature(f).parameters:
        args.append({"voi": voi, "states": states, "rates": rates, "variables": variables, "external_variable": ext}[p])
    f(*args)
for ph, fn in enumerate(("initialise_variables", "compute_computed_constants", "compute_rates", "compute_variables")):
    call(fn, ph)
if ode:
    for i in range(model.STATE_COUNT):
        print("VAL S %d %s" % (i, fmt(states[i])))
        print("VAL R %d %s" % (i, fmt(rates[i])))
for i in range(model.VARIABLE_COUNT):
    print("VAL V %d %s" % (i, fmt(variables[i])))
if ode or (HAS_PLAN and used_ext):
    step = 1
    if ode:
        for i in range(model.STATE_COUNT):
            states[i] += 5.0
    call("compute_variables", 4)
    for i in range(model.VARIABLE_COUNT):
        print("VAL2 V %d %s" % (i, fmt(variables[i])))
    if ode:
        call("compute_rates", 5)
        for i in range(model.STATE_COUNT):
            print("VAL2 S %d %s" % (i, fmt(states[i])))
            print("VAL2 R %d %s" % (i, fmt(rates[i])))
print("DONE")
)PY";
    int rc = sh("cd " + dir + " && timeout 30 python3 main.py > out.txt 2> err.txt");
    r.built = rc == 0;
    if (!r.built) {
        r.diagnostics = slurp(dir + "/err.txt").substr(0, 800);
    }
    parseReport(slurp(dir + "/out.txt"), r);
    rmTree(dir);
    return r;
}

static std::string fmtD(double d)
{
    if (std::isnan(d)) {
        return "nan";
    }
    char buf[64];
    snprintf(buf, sizeof buf, "%.15g", d);
    return buf;
}

J genRunToJson(const GenRun &r)
{
    J j = J::obj();
    j.set("built", J(r.built)).set("ran", J(r.ran)).set("diag", tok(r.diagnostics.substr(0, 600)));
    j.set("stateCount", J(static_cast<long long>(r.stateCount))).set("variableCount", J(static_cast<long long>(r.variableCount)));
    auto rows = [](const std::vector<InfoRow> &v) {
        J a = J::arr();
        for (auto &x : v) {
            J o = J::obj();
            o.set("name", x.name).set("units", x.units).set("component", x.component).set("type", x.type);
            a.push(o);
        }
        return a;
    };
    j.set("stateInfo", rows(r.stateInfo)).set("variableInfo", rows(r.variableInfo));
    if (r.hasVoi) {
        j.set("voiInfo", rows({r.voiInfo}));
    }
    auto vals = [](const std::vector<double> &v) {
        J a = J::arr();
        for (double d : v) {
            a.push(fmtD(d));
        }
        return a;
    };
    j.set("states", vals(r.states)).set("rates", vals(r.rates)).set("variables", vals(r.variables)).set("infoFits", J(r.infoFits));
    j.set("hasSecondStep", J(!r.variables2.empty() || !r.states2.empty()));
    J ext = J::arr();
    for (auto &c : r.extCalls) {
        J o = J::obj();
        o.set("index", J(static_cast<long long>(c.index))).set("phase", J(c.phase));
        J d = J::arr();
        for (int k : c.definedVariables) {
            d.push(J(k));
        }
        o.set("defined", d);
        ext.push(o);
    }
    j.set("extCalls", ext);
    double worst = 0;
    for (double x : r.residuals) {
        worst = std::max(worst, x);
    }
    j.set("residualsOk", J(worst < 1e-9)).set("residualCount", J(r.residuals.size()));
    auto strs = [](const std::vector<std::string> &v) {
        J a = J::arr();
        for (auto &x : v) {
            a.push(x);
        }
        return a;
    };
    j.set("declared", strs(r.declared)).set("defined", strs(r.defined));
    return j;
}

// ---------------------------------------------------------------------------------- Expr.tla trees -> MathML
static std::string num(const J &t)
{
    long long n = t["n"].num();
    long long d = t["d"].num(1);
    if (d == 1) {
        return std::to_string(n);
    }
    char buf[64];
    snprintf(buf, sizeof buf, "%.15g", static_cast<double>(n) / static_cast<double>(d));
    return buf;
}

std::string treeToMathml(const J &t)
{
    std::string op = t["op"].str();
    if (op == "ci") {
        return "<ci>" + std::string(t["form"].str("plain") == "comment" ? "<!-- c -->" : "") + t["name"].str() + "</ci>";
    }
    if (op == "cn") {
        std::string form = t["form"].str("plain");
        if (form == "enot") {
            return "<cn cellml:units=\"dimensionless\" type=\"e-notation\">" + num(t) + "<sep/>0</cn>";
        }
        if (form == "comment") {
            return "<cn cellml:units=\"dimensionless\"><!-- c -->" + num(t) + "</cn>";
        }
        std::string suffix = form == "upperE" ? "E0" : (form == "lowerE" ? "e0" : (form == "plusExp" ? "e+0" : (form == "dot" && num(t).find('.') == std::string::npos ? "." : "")));
        return "<cn cellml:units=\"dimensionless\">" + num(t) + suffix + "</cn>";
    }
    if (op == "true" || op == "false") {
        return "<" + op + "/>";
    }
    if (op == "piecewise") {
        std::string s = "<piecewise>";
        for (auto &p : t["pieces"].a) {
            s += "<piece>" + treeToMathml(p[0]) + treeToMathml(p[1]) + "</piece>";
        }
        const J &o = t["otherwise"];
        if (!(o["op"].str() == "cn" && o["d"].num() == 0)) {
            s += "<otherwise>" + treeToMathml(o) + "</otherwise>";
        }
        return s + "</piecewise>";
    }
    std::string s = "<apply><" + op + "/>";
    if (t.has("qual")) {
        s += (op == "root" ? "<degree>" : "<logbase>") + treeToMathml(t["qual"]) + (op == "root" ? "</degree>" : "</logbase>");
    }
    for (auto &a : t["args"].a) {
        s += treeToMathml(a);
    }
    return s + "</apply>";
}
