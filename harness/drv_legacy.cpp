// Driver "legacy" (C14): an abstract model is written mechanically in CellML 1.0 / 1.1 syntax (several syntax
// variants) and parsed in both modes; the content the permissive parser returns is dumped for TLC.
#include "build.h"

using namespace libcellml;
std::string ruleName(const IssuePtr &issue);

static std::string X(const J &j)
{
    std::string s = j.str("none");
    if (s == "none") {
        return "";
    }
    s = untok(s);
    std::string r;
    for (char c : s) {
        switch (c) {
        case '&':
            r += "&amp;";
            break;
        case '<':
            r += "&lt;";
            break;
        case '>':
            r += "&gt;";
            break;
        case '"':
            r += "&quot;";
            break;
        default:
            r += c;
        }
    }
    return r;
}

static std::string attr(const std::string &n, const std::string &v)
{
    return v.empty() ? "" : " " + n + "=\"" + v + "\"";
}

static std::string spell(const std::string &u, bool us)
{
    if (us && u == "metre") {
        return "meter";
    }
    if (us && u == "litre") {
        return "liter";
    }
    return u;
}

static std::string replaceAll(std::string s, const std::string &a, const std::string &b)
{
    size_t p = 0;
    while ((p = s.find(a, p)) != std::string::npos) {
        s.replace(p, a.size(), b);
        p += b.size();
    }
    return s;
}

static std::string unitsXml(const J &u, bool us)
{
    std::string s = "<units" + attr("name", X(u["name"])) + attr("cmeta:id", X(u["id"])) + ">";
    for (auto &k : u["kids"].a) {
        s += "<unit" + attr("units", spell(X(k["ref"]), us)) + attr("prefix", X(k["prefix"]));
        if (k["exp"].str() != "1") {
            s += attr("exponent", k["exp"].str());
        }
        if (k["mult"].str() != "1") {
            s += attr("multiplier", k["mult"].str());
        }
        s += attr("cmeta:id", X(k["id"])) + "/>";
    }
    return s + "</units>\n";
}

static std::string write1x(const J &am, const J &vr)
{
    std::string version = vr["version"].str();
    std::string ns = "http://www.cellml.org/cellml/" + version + "#";
    bool us = vr["spell"].str() == "us";
    bool mathPrefix = vr["mathStyle"].str() == "mathPrefix";
    bool mathFirst = vr["mathPos"].str() == "first";
    std::string ifaceStyle = vr["ifaceStyle"].str();
    bool compUnits = vr["unitsPlace"].str() == "component";
    std::string s = "<?xml version=\"1.0\" encoding=\"UTF-8\"?>\n<model xmlns=\"" + ns + "\" xmlns:cmeta=\"http://www.cellml.org/metadata/1.0#\" xmlns:xlink=\"http://www.w3.org/1999/xlink\"";
    if (!mathPrefix) {
        s += " xmlns:cellml=\"" + ns + "\"";
    }
    s += attr("name", X(am["name"])) + attr("cmeta:id", X(am["id"])) + ">\n";
    // imports (1.1 only): one import element per (url, id)
    std::map<std::pair<std::string, std::string>, std::string> imports;
    for (auto &u : am["units"].a) {
        if (u["imp"].str() != "none") {
            imports[{X(u["imp"]), X(u["impId"])}] += "<units" + attr("units_ref", X(u["ref"])) + attr("name", X(u["name"])) + attr("cmeta:id", X(u["id"])) + "/>";
        }
    }
    for (auto &c : am["comps"].a) {
        if (c["imp"].str() != "none") {
            imports[{X(c["imp"]), X(c["impId"])}] += "<component" + attr("component_ref", X(c["ref"])) + attr("name", X(c["name"])) + attr("cmeta:id", X(c["id"])) + "/>";
        }
    }
    for (auto &kv : imports) {
        s += "<import" + attr("xlink:href", kv.first.first) + attr("cmeta:id", kv.first.second) + ">" + kv.second + "</import>\n";
    }
    for (auto &u : am["units"].a) {
        if (u["imp"].str() == "none") {
            s += unitsXml(u, us);
        }
    }
    bool extraDone = false;
    for (auto &c : am["comps"].a) {
        if (c["imp"].str() != "none") {
            continue;
        }
        std::string body;
        std::string vars;
        for (auto &v : c["vars"].a) {
            std::string iface = v["iface"].str("none");
            std::string pub = (iface == "public" || iface == "public_and_private") ? "in" : "";
            std::string priv = (iface == "private" || iface == "public_and_private") ? "out" : "";
            if (ifaceStyle == "explicitNone") {
                if (pub.empty()) {
                    pub = "none";
                }
                if (priv.empty()) {
                    priv = "none";
                }
            }
            std::string ia = ifaceStyle == "privFirst" ? attr("private_interface", priv) + attr("public_interface", pub) : attr("public_interface", pub) + attr("private_interface", priv);
            vars += "<variable" + attr("name", X(v["name"])) + attr("units", spell(X(v["units"]), us)) + attr("initial_value", X(v["init"])) + ia + attr("cmeta:id", X(v["id"])) + "/>";
        }
        std::string math = untok(c["math"].str("none") == "none" ? "" : c["math"].str());
        if (!math.empty()) {
            // the 2.0 math names the 2.0 namespace; in a 1.x document cellml:units lives in the 1.x namespace
            math = replaceAll(math, " xmlns:cellml=\"http://www.cellml.org/cellml/2.0#\"", mathPrefix ? " xmlns:cellml=\"" + ns + "\"" : "");
        }
        std::string extra;
        if (compUnits && !extraDone && c["name"].str() == "d1") {
            // units declared inside a component, used by a variable of that component
            extra = "<units name=\"uc\"><unit units=\"" + spell("litre", us) + "\" prefix=\"micro\"/></units><variable name=\"w\" units=\"uc\"/>";
            extraDone = true;
            // ... and an equation whose number names a standard unit
            math += "<math xmlns=\"http://www.w3.org/1998/Math/MathML\"" + std::string(mathPrefix ? " xmlns:cellml=\"" + ns + "\"" : "") + "><apply><eq/><ci>w</ci><cn cellml:units=\""
                    + spell("litre", us) + "\">1</cn></apply></math>";
        }
        body = mathFirst ? math + vars + extra : vars + extra + math;
        s += "<component" + attr("name", X(c["name"])) + attr("cmeta:id", X(c["id"])) + ">" + body + "</component>\n";
    }
    // encapsulation as a group
    std::function<std::string(const std::string &)> refs = [&](const std::string &parent) {
        std::string r;
        for (auto &c : am["comps"].a) {
            if (c["parent"].str("none") == parent) {
                std::string kids = refs(c["name"].str());
                if (parent == "none" && kids.empty()) {
                    continue;
                }
                r += "<component_ref" + attr("component", X(c["name"])) + attr("cmeta:id", X(c["encId"])) + ">" + kids + "</component_ref>";
            }
        }
        return r;
    };
    std::string enc = refs("none");
    if (!enc.empty()) {
        s += "<group><relationship_ref relationship=\"encapsulation\"/>" + enc + "</group>\n";
    }
    for (auto &cn : am["conns"].a) {
        s += "<connection><map_components" + attr("component_1", X(cn["c1"])) + attr("component_2", X(cn["c2"])) + attr("cmeta:id", X(cn["id"])) + "/>";
        for (auto &m : cn["maps"].a) {
            s += "<map_variables" + attr("variable_1", X(m["v1"])) + attr("variable_2", X(m["v2"])) + attr("cmeta:id", X(m["id"])) + "/>";
        }
        s += "</connection>\n";
    }
    s += "</model>\n";
    return s;
}

static void legacy(const J &sc, Emitter &out)
{
    std::string text = write1x(sc["am"], sc["vr"]);
    J ev = J::obj();
    ev.set("e", "legacy").set("fv", sc["fv"]).set("vr", sc["vr"]);
    auto strict = Parser::create(true);
    auto ms = strict->parseModel(text);
    ev.set("strictNull", J(ms == nullptr)).set("strictErrors", J(strict->errorCount())).set("slog", loggerObs(strict));
    auto perm = Parser::create(false);
    auto mp = perm->parseModel(text);
    ev.set("permErrors", J(perm->errorCount())).set("permWarnings", J(perm->warningCount())).set("permMessages", J(perm->messageCount())).set("plog", loggerObs(perm));
    J descr = J::arr();
    for (size_t i = 0; i < perm->issueCount() && i < 6; ++i) {
        if (perm->issue(i)->level() != Issue::Level::MESSAGE) {
            descr.push(tok(perm->issue(i)->description()).substr(0, 160));
        }
    }
    ev.set("strong", descr);
    // math is compared up to namespace prefix declarations: drop the cellml prefix declaration from the dumped math
    J content = contentOf(mp);
    std::string dumped = replaceAll(content.dump(), " xmlns:cellml={QUOT}http://www.cellml.org/cellml/2.0#{QUOT}", "");
    ev.set("content", parseJson(dumped));
    // cellml:units attributes must have moved to the 2.0 namespace: the math of the result names it
    bool moved = true;
    if (mp) {
        std::function<void(const ComponentPtr &)> walk = [&](const ComponentPtr &c) {
            if (c->math().find("cellml/1.") != std::string::npos) {
                moved = false;
            }
            for (size_t i = 0; i < c->componentCount(); ++i) {
                walk(c->component(i));
            }
        };
        for (size_t i = 0; i < mp->componentCount(); ++i) {
            walk(mp->component(i));
        }
        auto v = Validator::create();
        v->validateModel(mp);
        ev.set("validErrors", J(v->errorCount()));
    }
    ev.set("nsMoved", J(moved));
    out.emit(ev);
}

static RegisterDriver reg("legacy", legacy);
