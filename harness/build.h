// Build a model from an abstract model record (same shape as the canonical content record).
#pragma once
#include "core.h"

#include <vector>

struct Built
{
    libcellml::ModelPtr model;
    std::map<std::string, libcellml::UnitsPtr> units; // by (token-encoded) name
    std::map<std::string, libcellml::ComponentPtr> comps;
    std::map<std::string, libcellml::VariablePtr> vars; // "comp/var"
    std::vector<libcellml::ResetPtr> resets;
    std::map<std::pair<std::string, std::string>, libcellml::ImportSourcePtr> imports; // (url, id)
    libcellml::ImportSourcePtr importSource(const std::string &url, const std::string &id);
};
Built buildModel(const J &abstractModel);
