// Build a model from an abstract model record (same shape as the canonical content record).
#pragma once
#include "core.h"

#include <vector>

struct Built
{
    libcellml::ModelPtr model;
    std::map<std::string, libcellml::UnitsPtr> units; // by (token-encoded) name
    std::map<std::string, libcellml::ComponentPtr> comps;
    std::map<std::string, libcellml::VariablePtr> vars; // "comp/var"
    std::vector<libcellml::ResetPtr> resets;
    // the same entities addressed by their position in the abstract model record
    std::vector<libcellml::UnitsPtr> unitsAt;
    std::vector<libcellml::ComponentPtr> compAt;
    std::vector<std::vector<libcellml::VariablePtr>> varAt;
    std::vector<std::vector<libcellml::ResetPtr>> resetAt;
    std::vector<libcellml::VariablePtr> loose; // parentless variables kept alive by the harness
    std::vector<libcellml::ComponentPtr> extra; // components added by a preparation
    std::vector<libcellml::ModelPtr> libs; // library models attached to import sources (C04 resolved imports)
    std::map<std::pair<std::string, std::string>, libcellml::ImportSourcePtr> imports; // (url, id)
    libcellml::ImportSourcePtr importSource(const std::string &url, const std::string &id);
};
Built buildModel(const J &abstractModel);
bool mutate(Built &b, const J &mutation); // one mutation addressed by position (drv_entity.cpp)
