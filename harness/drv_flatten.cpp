// Driver "flatten" (C06): resolvable import worlds are materialised, resolved and flattened; the flat model is logged
// as component instances (hierarchy, variables, values, equivalences) and as a UnitsAlgebra family of its units.
#include "core.h"

#include <cmath>
#include <dirent.h>
#include <set>
#include <fstream>
#include <unistd.h>

using namespace libcellml;

static const char *NS = "http://www.cellml.org/cellml/2.0#";
static const char *MMLNS = "http://www.w3.org/1998/Math/MathML";

static std::string text(const J &f, const std::string &modelName)
{
    std::string s = "<?xml version=\"1.0\" encoding=\"UTF-8\"?>\n<model xmlns=\"" + std::string(NS) + "\" xmlns:xlink=\"http://www.w3.org/1999/xlink\" xmlns:cellml=\"" + NS + "\" name=\"" + modelName + "\">\n";
    for (auto &u : f["units"].a) {
        std::string k = u["kind"].str();
        if (k == "import") {
            s += "  <import xlink:href=\"" + u["file"].str() + ".cellml\"><units name=\"" + u["name"].str() + "\" units_ref=\"" + u["ref"].str() + "\"/></import>\n";
        } else if (k == "ref") {
            s += "  <units name=\"" + u["name"].str() + "\"><unit units=\"" + u["ref"].str() + "\"" + (u["prefix"].str("none") == "none" ? "" : " prefix=\"" + u["prefix"].str() + "\"") + "/></units>\n";
        } else {
            s += "  <units name=\"" + u["name"].str() + "\"/>\n";
        }
    }
    std::string enc;
    for (auto &c : f["comps"].a) {
        if (c["kind"].str() == "import") {
            s += "  <import xlink:href=\"" + c["file"].str() + ".cellml\"><component name=\"" + c["name"].str() + "\" component_ref=\"" + c["ref"].str() + "\"/></import>\n";
            continue;
        }
        auto un = [](const J &x) { return x.str("none") == "none" ? std::string("dimensionless") : x.str(); };
        s += "  <component name=\"" + c["name"].str() + "\"><variable name=\"v\" units=\"" + un(c["units"]) + "\" initial_value=\"" + c["init"].str("1") + "\" interface=\"public_and_private\"/>";
        if (c["units2"].str("none") != "none") {
            s += "<variable name=\"v2\" units=\"" + c["units2"].str() + "\" initial_value=\"2\" interface=\"public_and_private\"/>";
        }
        if (c["cn"].str("none") != "none") {
            // units named only by <cn> elements (the helper variables are dimensionless); "a|b": one <math> element per units
            std::string spec = c["cn"].str();
            std::vector<std::string> blocks;
            size_t p0 = 0, p1;
            while ((p1 = spec.find('|', p0)) != std::string::npos) {
                blocks.push_back(spec.substr(p0, p1 - p0));
                p0 = p1 + 1;
            }
            blocks.push_back(spec.substr(p0));
            std::string decl, math;
            for (size_t k = 0; k < blocks.size(); ++k) {
                std::string w = "w" + (k == 0 ? std::string() : std::to_string(k + 1));
                decl += "<variable name=\"" + w + "\" units=\"dimensionless\"/>";
                math += "<math xmlns=\"" + std::string(MMLNS) + "\"><apply><eq/><ci>" + w + "</ci><cn cellml:units=\"" + blocks[k] + "\">1</cn></apply></math>";
            }
            s += decl + math;
        }
        s += "</component>\n";
    }
    std::function<std::string(const std::string &)> refs = [&](const std::string &name) {
        std::string r;
        for (auto &c : f["comps"].a) {
            if (c["name"].str() == name) {
                for (auto &k : c["kids"].a) {
                    r += "<component_ref component=\"" + k.str() + "\">" + refs(k.str()) + "</component_ref>";
                }
            }
        }
        return r;
    };
    std::set<std::string> children;
    for (auto &c : f["comps"].a) {
        for (auto &k : c["kids"].a) {
            children.insert(k.str());
        }
    }
    for (auto &c : f["comps"].a) {
        if (c["kids"].size() > 0 && !children.count(c["name"].str())) {
            enc += "<component_ref component=\"" + c["name"].str() + "\">" + refs(c["name"].str()) + "</component_ref>";
        }
    }
    if (!enc.empty()) {
        s += "  <encapsulation>" + enc + "</encapsulation>\n";
    }
    for (auto &cn : f["conns"].a) {
        s += "  <connection component_1=\"" + cn["c1"].str() + "\" component_2=\"" + cn["c2"].str() + "\"><map_variables variable_1=\"" + cn["v1"].str() + "\" variable_2=\"" + cn["v2"].str() + "\"/></connection>\n";
    }
    s += "</model>\n";
    return s;
}

static void rmTree(const std::string &dir)
{
    if (DIR *d = opendir(dir.c_str())) {
        while (auto *e = readdir(d)) {
            std::string n = e->d_name;
            if (n != "." && n != "..") {
                unlink((dir + "/" + n).c_str());
            }
        }
        closedir(d);
    }
    rmdir(dir.c_str());
}

static void walk(const ComponentPtr &c, const std::string &parent, J &comps)
{
    J r = J::obj();
    r.set("name", c->name()).set("parent", parent.empty() ? "none" : parent);
    J vars = J::arr();
    for (size_t i = 0; i < c->variableCount(); ++i) {
        auto v = c->variable(i);
        if (v->name() == "w" || v->name() == "w2" || v->name() == "w3") {
            continue; // the helper variable of the cn-only math is not part of the signature
        }
        J vr = J::obj();
        vr.set("name", v->name()).set("units", v->units() ? (v->units()->name() == "dimensionless" ? std::string("none") : v->units()->name()) : "none");
        vr.set("init", v->initialValue().empty() ? "none" : v->initialValue());
        J eq = J::arr();
        for (size_t k = 0; k < v->equivalentVariableCount(); ++k) {
            auto w = v->equivalentVariable(k);
            J p = J::arr();
            p.push(w->name()).push(w->initialValue().empty() ? "none" : w->initialValue());
            eq.push(p);
        }
        vr.set("eq", eq);
        vars.push(vr);
    }
    r.set("vars", vars);
    comps.push(r);
    for (size_t i = 0; i < c->componentCount(); ++i) {
        walk(c->component(i), c->name(), comps);
    }
}

static void flatten(const J &sc, Emitter &out)
{
    char tmpl[] = "/tmp/vflatXXXXXX";
    std::string dir = mkdtemp(tmpl);
    const J &files = sc["files"];
    for (auto &kv : files.o) {
        if (kv.first != "root") {
            std::ofstream(dir + "/" + kv.first + ".cellml") << text(kv.second, kv.first);
        }
    }
    bool strict = sc["strict"].boolean(true);
    J ev = J::obj();
    ev.set("e", "flatten").set("world", sc["world"]).set("strict", J(strict)).set("files", files);
    auto parser = Parser::create(true);
    auto root = parser->parseModel(text(files["root"], "root"));
    auto imp = Importer::create(strict);
    bool resolved = imp->resolveImports(root, dir + "/");
    ev.set("resolved", J(resolved)).set("rootParseIssues", J(parser->issueCount()));
    std::string rootBefore = contentOf(root).dump();
    std::vector<std::string> libBefore;
    for (size_t i = 0; i < imp->libraryCount(); ++i) {
        libBefore.push_back(contentOf(imp->library(i)).dump());
    }
    auto flat = imp->flattenModel(root);
    ev.set("flatNull", J(flat == nullptr)).set("log", loggerObs(imp));
    bool libSame = true;
    for (size_t i = 0; i < imp->libraryCount() && i < libBefore.size(); ++i) {
        libSame = libSame && contentOf(imp->library(i)).dump() == libBefore[i];
    }
    ev.set("rootUnchanged", J(contentOf(root).dump() == rootBefore)).set("libraryUnchanged", J(libSame));
    if (flat) {
        ev.set("flatHasImports", J(flat->hasImports()));
        auto v = Validator::create();
        v->validateModel(flat);
        ev.set("flatErrors", J(v->errorCount()));
        J descr = J::arr();
        for (size_t i = 0; i < v->issueCount() && i < 4; ++i) {
            descr.push(tok(v->issue(i)->description()).substr(0, 200));
        }
        ev.set("flatIssues", descr);
        ev.set("flatParentless", J(flat->parent() == nullptr));
        J ufam = J::arr();
        for (size_t i = 0; i < flat->unitsCount(); ++i) {
            auto u = flat->units(i);
            J d = J::obj();
            d.set("name", u->name());
            J kids = J::arr();
            for (size_t k = 0; k < u->unitCount(); ++k) {
                J kid = J::obj();
                std::string p = u->unitAttributePrefix(k);
                kid.set("ref", u->unitAttributeReference(k)).set("prefix", p.empty() ? "none" : p);
                kid.set("exp", J(static_cast<long long>(std::lround(u->unitAttributeExponent(k))))).set("mult", J(static_cast<long long>(std::lround(std::log10(u->unitAttributeMultiplier(k))))));
                kids.push(kid);
            }
            d.set("kids", kids).set("imp", "none").set("lib", J(false));
            ufam.push(d);
        }
        ev.set("ufam", ufam);
        J comps = J::arr();
        for (size_t i = 0; i < flat->componentCount(); ++i) {
            walk(flat->component(i), "", comps);
        }
        ev.set("comps", comps);
    }
    out.emit(ev);
    rmTree(dir);
}

static RegisterDriver reg("flatten", flatten);
