// The pool of documents used by the "services" driver (C12, C15, C01): named texts and import files.
#pragma once
#include <map>
#include <string>

#define NS20 "http://www.cellml.org/cellml/2.0#"
#define MML "http://www.w3.org/1998/Math/MathML"

inline const std::map<std::string, std::string> &poolFiles()
{
    static const std::map<std::string, std::string> files = {
        {"ok.cellml",
         "<?xml version=\"1.0\" encoding=\"UTF-8\"?>\n<model xmlns=\"" NS20 "\" name=\"lib\">\n"
         "  <units name=\"u\"><unit units=\"second\" prefix=\"milli\"/></units>\n"
         "  <component name=\"c\"><variable name=\"x\" units=\"u\" initial_value=\"1\" interface=\"public\"/></component>\n"
         "</model>\n"},
        // the imported component c is a pure container: only its encapsulated child uses the units of the library
        {"tree.cellml",
         "<?xml version=\"1.0\" encoding=\"UTF-8\"?>\n<model xmlns=\"" NS20 "\" name=\"treelib\">\n"
         "  <units name=\"u\"><unit units=\"second\" prefix=\"milli\"/></units>\n"
         "  <component name=\"c\"/>\n"
         "  <component name=\"kid\"><variable name=\"x\" units=\"u\" initial_value=\"1\" interface=\"public\"/></component>\n"
         "  <encapsulation><component_ref component=\"c\"><component_ref component=\"kid\"/></component_ref></encapsulation>\n"
         "</model>\n"},
        // two levels: c (using units u of nest1) encapsulates k, itself imported from nest2 and connected to c, so that the
        // placeholder k has a variable; the importing document defines another units u, which forces a renaming while flattening
        {"nest1.cellml",
         "<?xml version=\"1.0\" encoding=\"UTF-8\"?>\n<model xmlns=\"" NS20 "\" xmlns:xlink=\"http://www.w3.org/1999/xlink\" name=\"nest1\">\n"
         "  <units name=\"u\"><unit units=\"second\" prefix=\"milli\"/></units>\n"
         "  <import xlink:href=\"nest2.cellml\"><component name=\"k\" component_ref=\"c2\"/></import>\n"
         "  <component name=\"c\"><variable name=\"x\" units=\"u\" interface=\"private\"/></component>\n"
         "  <connection component_1=\"c\" component_2=\"k\"><map_variables variable_1=\"x\" variable_2=\"p\"/></connection>\n"
         "  <encapsulation><component_ref component=\"c\"><component_ref component=\"k\"/></component_ref></encapsulation>\n"
         "</model>\n"},
        {"nest2.cellml",
         "<?xml version=\"1.0\" encoding=\"UTF-8\"?>\n<model xmlns=\"" NS20 "\" name=\"nest2\">\n"
         "  <units name=\"u\"><unit units=\"second\" prefix=\"milli\"/></units>\n"
         "  <component name=\"c2\"><variable name=\"p\" units=\"u\" initial_value=\"1\" interface=\"public\"/></component>\n"
         "</model>\n"},
        {"v11.cellml",
         "<?xml version=\"1.0\"?>\n<model xmlns=\"http://www.cellml.org/cellml/1.1#\" name=\"lib11\">\n"
         "  <component name=\"c\"><variable name=\"x\" units=\"dimensionless\" initial_value=\"2\" public_interface=\"out\"/></component>\n"
         "</model>\n"},
        // CellML 1.0, well-formed, with a parser error that is unrelated to component c (unknown attribute on a unit)
        {"v10err.cellml",
         "<?xml version=\"1.0\"?>\n<model xmlns=\"http://www.cellml.org/cellml/1.0#\" name=\"lib10\">\n"
         "  <units name=\"w\"><unit units=\"second\" bogus=\"1\"/></units>\n"
         "  <component name=\"c\"><variable name=\"x\" units=\"dimensionless\" initial_value=\"3\" public_interface=\"out\"/></component>\n"
         "</model>\n"},
        {"garbage.cellml", "this is <not xml"},
        {"foreign.cellml", "<?xml version=\"1.0\"?>\n<html><body/></html>\n"},
        {"cyc_a.cellml",
         "<?xml version=\"1.0\" encoding=\"UTF-8\"?>\n<model xmlns=\"" NS20 "\" xmlns:xlink=\"http://www.w3.org/1999/xlink\" name=\"a\">\n"
         "  <import xlink:href=\"cyc_b.cellml\"><component name=\"c\" component_ref=\"c\"/></import>\n</model>\n"},
        {"cyc_b.cellml",
         "<?xml version=\"1.0\" encoding=\"UTF-8\"?>\n<model xmlns=\"" NS20 "\" xmlns:xlink=\"http://www.w3.org/1999/xlink\" name=\"b\">\n"
         "  <import xlink:href=\"cyc_a.cellml\"><component name=\"c\" component_ref=\"c\"/></import>\n</model>\n"},
    };
    return files;
}

inline std::string importing(const std::string &file, const std::string &what = "component")
{
    std::string s = "<?xml version=\"1.0\" encoding=\"UTF-8\"?>\n<model xmlns=\"" NS20 "\" xmlns:xlink=\"http://www.w3.org/1999/xlink\" name=\"top\">\n"
                    "  <import xlink:href=\""
                    + file + "\">";
    if (what == "component") {
        s += "<component name=\"ic\" component_ref=\"c\"/>";
    } else if (what == "units") {
        s += "<units name=\"iu\" units_ref=\"u\"/>";
    } else {
        s += "<component name=\"ic\" component_ref=\"nosuch\"/>";
    }
    s += "</import>\n  <component name=\"main\"><variable name=\"y\" units=\"dimensionless\" initial_value=\"1\"/></component>\n</model>\n";
    return s;
}

// as importing(file), the importing model defining its own, different units u
inline std::string importingWithUnits(const std::string &file)
{
    return "<?xml version=\"1.0\" encoding=\"UTF-8\"?>\n<model xmlns=\"" NS20 "\" xmlns:xlink=\"http://www.w3.org/1999/xlink\" name=\"top\">\n"
           "  <units name=\"u\"><unit units=\"metre\"/></units>\n"
           "  <import xlink:href=\"" + file + "\"><component name=\"ic\" component_ref=\"c\"/></import>\n"
           "  <component name=\"main\"><variable name=\"y\" units=\"u\" initial_value=\"1\"/></component>\n</model>\n";
}

inline const std::map<std::string, std::string> &poolTexts()
{
    static const std::map<std::string, std::string> texts = {
        // valid ODE model; the math has whitespace between elements
        {"ode",
         "<?xml version=\"1.0\" encoding=\"UTF-8\"?>\n<model xmlns=\"" NS20 "\" xmlns:cellml=\"" NS20 "\" name=\"ode\">\n"
         "  <component name=\"c\">\n    <variable name=\"t\" units=\"second\"/>\n    <variable name=\"x\" units=\"dimensionless\" initial_value=\"1\"/>\n"
         "    <variable name=\"k\" units=\"dimensionless\" initial_value=\"2\"/>\n"
         "    <math xmlns=\"" MML "\">\n      <apply>\n        <eq/>\n        <apply>\n          <diff/>\n          <bvar>\n            <ci>t</ci>\n          </bvar>\n          <ci>x</ci>\n        </apply>\n"
         "        <apply>\n          <times/>\n          <ci>k</ci>\n          <cn cellml:units=\"per_s\">3</cn>\n        </apply>\n      </apply>\n    </math>\n  </component>\n"
         "  <units name=\"per_s\"><unit units=\"second\" exponent=\"-1\"/></units>\n</model>\n"},
        // the same model in milliseconds: units of the same name as in "ode" with another definition, named by a <cn>
        {"ode2",
         "<?xml version=\"1.0\" encoding=\"UTF-8\"?>\n<model xmlns=\"" NS20 "\" xmlns:cellml=\"" NS20 "\" name=\"ode2\">\n"
         "  <units name=\"ms\"><unit units=\"second\" prefix=\"milli\"/></units>\n  <units name=\"per_s\"><unit units=\"ms\" exponent=\"-1\"/></units>\n"
         "  <component name=\"c\"><variable name=\"t\" units=\"ms\"/><variable name=\"x\" units=\"dimensionless\" initial_value=\"1\"/>"
         "<variable name=\"k\" units=\"dimensionless\" initial_value=\"2\"/>"
         "<math xmlns=\"" MML "\"><apply><eq/><apply><diff/><bvar><ci>t</ci></bvar><ci>x</ci></apply><apply><times/><ci>k</ci><cn cellml:units=\"per_s\">3</cn></apply></apply></math></component>\n</model>\n"},
        {"alg",
         "<?xml version=\"1.0\" encoding=\"UTF-8\"?>\n<model xmlns=\"" NS20 "\" xmlns:cellml=\"" NS20 "\" name=\"alg\">\n"
         "  <component name=\"c\"><variable name=\"a\" units=\"dimensionless\" initial_value=\"4\"/><variable name=\"b\" units=\"dimensionless\"/>"
         "<math xmlns=\"" MML "\"><apply><eq/><ci>b</ci><apply><plus/><ci>a</ci><cn cellml:units=\"dimensionless\">1</cn></apply></apply></math>"
         "<reset variable=\"a\" test_variable=\"b\" order=\"1\" id=\"r1\"><test_value>\n<math xmlns=\"" MML "\">\n<cn cellml:units=\"dimensionless\">5</cn>\n</math>\n</test_value>"
         "<reset_value><math xmlns=\"" MML "\"><cn cellml:units=\"dimensionless\">6</cn></math></reset_value></reset></component>\n</model>\n"},
        // parses, but the validator objects (duplicate variable, unknown units, bad id)
        {"invalid",
         "<?xml version=\"1.0\" encoding=\"UTF-8\"?>\n<model xmlns=\"" NS20 "\" name=\"inv\" id=\"1bad\">\n"
         "  <component name=\"c\"><variable name=\"a\" units=\"nounits\"/><variable name=\"a\" units=\"dimensionless\"/></component>\n</model>\n"},
        // parser errors: unknown element and attribute
        {"parseerr",
         "<?xml version=\"1.0\" encoding=\"UTF-8\"?>\n<model xmlns=\"" NS20 "\" name=\"pe\" colour=\"red\">\n"
         "  <component name=\"c\"><variable name=\"a\" units=\"dimensionless\" flavour=\"x\"/><thing/></component>\n</model>\n"},
        // two connected components (interfaces, mapping): sensitive to being read under CellML 1.x rules
        {"conn",
         "<?xml version=\"1.0\" encoding=\"UTF-8\"?>\n<model xmlns=\"" NS20 "\" name=\"conn\">\n"
         "  <component name=\"a\"><variable name=\"x\" units=\"metre\" interface=\"public\" initial_value=\"1\"/></component>\n"
         "  <component name=\"b\"><variable name=\"x\" units=\"metre\" interface=\"public\"/></component>\n"
         "  <connection component_1=\"a\" component_2=\"b\" id=\"cid\"><map_variables variable_1=\"x\" variable_2=\"x\" id=\"mid\"/></connection>\n</model>\n"},
        {"under",
         "<?xml version=\"1.0\" encoding=\"UTF-8\"?>\n<model xmlns=\"" NS20 "\" name=\"under\">\n"
         "  <component name=\"c\"><variable name=\"a\" units=\"dimensionless\"/><variable name=\"b\" units=\"dimensionless\"/>"
         "<math xmlns=\"" MML "\"><apply><eq/><ci>b</ci><ci>a</ci></apply></math></component>\n</model>\n"},
        {"over",
         "<?xml version=\"1.0\" encoding=\"UTF-8\"?>\n<model xmlns=\"" NS20 "\" xmlns:cellml=\"" NS20 "\" name=\"over\">\n"
         "  <component name=\"c\"><variable name=\"a\" units=\"dimensionless\" initial_value=\"1\"/>"
         "<math xmlns=\"" MML "\"><apply><eq/><ci>a</ci><cn cellml:units=\"dimensionless\">2</cn></apply></math></component>\n</model>\n"},
        {"v11",
         "<?xml version=\"1.0\"?>\n<model xmlns=\"http://www.cellml.org/cellml/1.1#\" xmlns:cmeta=\"http://www.cellml.org/metadata/1.0#\" name=\"m11\" cmeta:id=\"mid\">\n"
         "  <component name=\"c\"><variable name=\"x\" units=\"dimensionless\" initial_value=\"2\" public_interface=\"out\" private_interface=\"in\"/></component>\n"
         "</model>\n"},
        {"garbage", "this is <not xml"},
        {"empty", ""},
        {"foreign", "<?xml version=\"1.0\"?>\n<html><body/></html>\n"},
        {"imp_ok", importing("ok.cellml")},
        {"imp_units", importing("ok.cellml", "units")},
        {"imp_tree", importing("tree.cellml")},
        // one identifier carried by two items, one carried by a single item
        {"dupids",
         "<?xml version=\"1.0\" encoding=\"UTF-8\"?>\n<model xmlns=\"" NS20 "\" name=\"dupids\" id=\"dup\">\n"
         "  <component name=\"c\" id=\"dup\"><variable name=\"x\" units=\"dimensionless\" id=\"uq\"/></component>\n</model>\n"},
        {"imp_nest", importingWithUnits("nest1.cellml")},
        {"imp_missing", importing("missing.cellml")},
        {"imp_noent", importing("ok.cellml", "nosuch")},
        {"imp_garbage", importing("garbage.cellml")},
        {"imp_foreign", importing("foreign.cellml")},
        {"imp_11", importing("v11.cellml")},
        {"imp_10err", importing("v10err.cellml")},
        {"imp_cycle", importing("cyc_a.cellml")},
        // issues of all three levels from one parse: an empty import (warning), an unknown attribute (error), a 1.x-style
        // construct is not needed - the import without children, with and without id, plus duplicated empty imports
        {"imp_empty",
         "<?xml version=\"1.0\" encoding=\"UTF-8\"?>\n<model xmlns=\"" NS20 "\" xmlns:xlink=\"http://www.w3.org/1999/xlink\" name=\"ie\">\n"
         "  <import xlink:href=\"ok.cellml\"/>\n  <import xlink:href=\"ok.cellml\" id=\"i2\"/>\n"
         "  <component name=\"c\" colour=\"red\"><variable name=\"a\" units=\"dimensionless\"/></component>\n  <import xlink:href=\"other.cellml\"></import>\n</model>\n"},
    };
    return texts;
}
