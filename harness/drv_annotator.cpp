// Driver "annotator" (C13): histories of setModel / direct model edits / assign* / clearAllIds / printModel(auto ids)
// on two models of one fixed shape. After each command: every item's id read back through the model's getters;
// after assign / clear / lookup commands also what the annotator itself reports (item(id), itemCount, ids, duplicateIds).
#include "core.h"

#include <algorithm>
#include <set>

using namespace libcellml;

struct Item
{
    std::string name;
    std::string kind; // annotator kind name
    std::function<std::string()> get;
    std::function<void(const std::string &)> set;
    std::function<AnyCellmlElementPtr(const AnnotatorPtr &, const std::string &)> lookupTyped; // not used
    std::function<std::string(const AnnotatorPtr &)> assign; // assignId(item) through the typed overloads
    std::function<bool(const AnyCellmlElementPtr &)> is; // does a looked-up element denote this item?
};

static const char *MATH = "<math xmlns=\"http://www.w3.org/1998/Math/MathML\"><apply MATHID><eq/><ci>y</ci><ci>x</ci></apply></math>";

struct AModel
{
    ModelPtr m;
    std::vector<Item> items;
    std::string mathId; // id inside the MathML of c1 (not one of the annotator's 13 kinds)
    ComponentPtr c1;

    void setMathId(const std::string &id)
    {
        mathId = id;
        std::string math = MATH;
        std::string attr = id.empty() ? "" : "id=\"" + id + "\"";
        math.replace(math.find("MATHID"), 6, attr);
        c1->setMath(math);
    }

    explicit AModel(const std::string &name)
    {
        m = Model::create(name);
        auto imp = ImportSource::create();
        imp->setUrl("lib.cellml");
        auto iu = Units::create("iu");
        iu->setSourceUnits(imp, "u");
        m->addUnits(iu);
        auto u1 = Units::create("u1");
        u1->addUnit("second", "milli", 1.0, 1.0, "");
        u1->addUnit("metre", "", -1.0, 1.0, "");
        m->addUnits(u1);
        c1 = Component::create("c1");
        auto c2 = Component::create("c2");
        auto d1 = Component::create("d1");
        m->addComponent(c1);
        c1->addComponent(c2);
        m->addComponent(d1);
        std::map<std::string, VariablePtr> v;
        for (auto c : {c1, c2, d1}) {
            for (auto n : {"x", "y"}) {
                auto var = Variable::create(n);
                var->setUnits("dimensionless");
                var->setInterfaceType("public_and_private");
                c->addVariable(var);
                v[c->name() + "/" + n] = var;
            }
        }
        auto r = Reset::create(1);
        r->setVariable(v["c1/x"]);
        r->setTestVariable(v["c1/y"]);
        r->setTestValue("<math xmlns=\"http://www.w3.org/1998/Math/MathML\"><ci>y</ci></math>");
        r->setResetValue("<math xmlns=\"http://www.w3.org/1998/Math/MathML\"><ci>x</ci></math>");
        c1->addReset(r);
        Variable::addEquivalence(v["c1/x"], v["d1/x"]);
        Variable::addEquivalence(v["c1/y"], v["d1/y"]);
        Variable::addEquivalence(v["c1/x"], v["c2/x"]);
        setMathId("");

        auto M = m;
        auto ent = [&](const std::string &n, const std::string &kind, const EntityPtr &e, std::function<std::string(const AnnotatorPtr &)> assign, std::function<bool(const AnyCellmlElementPtr &)> is) {
            items.push_back({n, kind, [e]() { return e->id(); }, [e](const std::string &s) { e->setId(s); }, nullptr, std::move(assign), std::move(is)});
        };
        ent("model", "MODEL", m, [M](const AnnotatorPtr &a) { return a->assignId(M, CellmlElementType::MODEL); }, [M](const AnyCellmlElementPtr &x) { return x->type() == CellmlElementType::MODEL && x->model() == M; });
        items.push_back({"enc", "ENCAPSULATION", [M]() { return M->encapsulationId(); }, [M](const std::string &s) { M->setEncapsulationId(s); }, nullptr,
                         [M](const AnnotatorPtr &a) { return a->assignId(M, CellmlElementType::ENCAPSULATION); },
                         [M](const AnyCellmlElementPtr &x) { return x->type() == CellmlElementType::ENCAPSULATION && x->model() == M; }});
        ent("imp", "IMPORT", imp, [imp](const AnnotatorPtr &a) { return a->assignId(imp); }, [imp](const AnyCellmlElementPtr &x) { return x->type() == CellmlElementType::IMPORT && x->importSource() == imp; });
        for (auto u : {iu, u1}) {
            ent("units:" + u->name(), "UNITS", u, [u](const AnnotatorPtr &a) { return a->assignId(u); }, [u](const AnyCellmlElementPtr &x) { return x->type() == CellmlElementType::UNITS && x->units() == u; });
        }
        for (size_t j = 0; j < 2; ++j) {
            items.push_back({"unit:u1/" + std::to_string(j), "UNIT", [u1, j]() { return u1->unitId(j); }, [u1, j](const std::string &s) { u1->setUnitId(j, s); }, nullptr,
                             [u1, j](const AnnotatorPtr &a) { return a->assignId(u1, j); },
                             [u1, j](const AnyCellmlElementPtr &x) { return x->type() == CellmlElementType::UNIT && x->unitsItem() && x->unitsItem()->units() == u1 && x->unitsItem()->index() == j; }});
        }
        for (auto c : {c1, c2, d1}) {
            ent("comp:" + c->name(), "COMPONENT", c, [c](const AnnotatorPtr &a) { return a->assignId(c, CellmlElementType::COMPONENT); }, [c](const AnyCellmlElementPtr &x) { return x->type() == CellmlElementType::COMPONENT && x->component() == c; });
            // (d1 takes no part in the encapsulation hierarchy: no component_ref element is written for it and assignIds need not
            //  give it one, but the object can carry an encapsulation id - "cref:d1" is an id present in the model, like "math")
            {
                items.push_back({"cref:" + c->name(), "COMPONENT_REF", [c]() { return c->encapsulationId(); }, [c](const std::string &s) { c->setEncapsulationId(s); }, nullptr,
                                 [c](const AnnotatorPtr &a) { return a->assignId(c, CellmlElementType::COMPONENT_REF); },
                                 [c](const AnyCellmlElementPtr &x) { return x->type() == CellmlElementType::COMPONENT_REF && x->component() == c; }});
            }
            for (auto n : {"x", "y"}) {
                auto var = v[c->name() + "/" + n];
                ent("var:" + c->name() + "/" + n, "VARIABLE", var, [var](const AnnotatorPtr &a) { return a->assignId(var); }, [var](const AnyCellmlElementPtr &x) { return x->type() == CellmlElementType::VARIABLE && x->variable() == var; });
            }
        }
        ent("reset", "RESET", r, [r](const AnnotatorPtr &a) { return a->assignId(r, CellmlElementType::RESET); }, [r](const AnyCellmlElementPtr &x) { return x->type() == CellmlElementType::RESET && x->reset() == r; });
        items.push_back({"tv", "TEST_VALUE", [r]() { return r->testValueId(); }, [r](const std::string &s) { r->setTestValueId(s); }, nullptr,
                         [r](const AnnotatorPtr &a) { return a->assignId(r, CellmlElementType::TEST_VALUE); }, [r](const AnyCellmlElementPtr &x) { return x->type() == CellmlElementType::TEST_VALUE && x->reset() == r; }});
        items.push_back({"rv", "RESET_VALUE", [r]() { return r->resetValueId(); }, [r](const std::string &s) { r->setResetValueId(s); }, nullptr,
                         [r](const AnnotatorPtr &a) { return a->assignId(r, CellmlElementType::RESET_VALUE); }, [r](const AnyCellmlElementPtr &x) { return x->type() == CellmlElementType::RESET_VALUE && x->reset() == r; }});
        auto pairItem = [&](const std::string &n, const VariablePtr &a1, const VariablePtr &a2) {
            auto same = [a1, a2](const VariablePairPtr &p) { return p && ((p->variable1() == a1 && p->variable2() == a2) || (p->variable1() == a2 && p->variable2() == a1)); };
            items.push_back({"map:" + n, "MAP_VARIABLES", [a1, a2]() { return Variable::equivalenceMappingId(a1, a2); }, [a1, a2](const std::string &s) { Variable::setEquivalenceMappingId(a1, a2, s); }, nullptr,
                             [a1, a2](const AnnotatorPtr &a) { return a->assignId(a1, a2, CellmlElementType::MAP_VARIABLES); },
                             [same](const AnyCellmlElementPtr &x) { return x->type() == CellmlElementType::MAP_VARIABLES && same(x->variablePair()); }});
        };
        pairItem("c1x-d1x", v["c1/x"], v["d1/x"]);
        pairItem("c1y-d1y", v["c1/y"], v["d1/y"]);
        pairItem("c1x-c2x", v["c1/x"], v["c2/x"]);
        // connections: one id per component pair
        auto connItem = [&](const std::string &n, const VariablePtr &a1, const VariablePtr &a2, const ComponentPtr &ca, const ComponentPtr &cb, const VariablePtr &b1 = nullptr, const VariablePtr &b2 = nullptr) {
            auto same = [ca, cb](const VariablePairPtr &p) {
                if (!p || !p->variable1() || !p->variable2()) {
                    return false;
                }
                auto pa = p->variable1()->parent();
                auto pb = p->variable2()->parent();
                return (pa == ca && pb == cb) || (pa == cb && pb == ca);
            };
            // one id per component pair: an edit sets it on every variable pair of the connection
            items.push_back({"conn:" + n, "CONNECTION", [a1, a2]() { return Variable::equivalenceConnectionId(a1, a2); },
                             [a1, a2, b1, b2](const std::string &s) {
                                 Variable::setEquivalenceConnectionId(a1, a2, s);
                                 if (b1) {
                                     Variable::setEquivalenceConnectionId(b1, b2, s);
                                 }
                             },
                             nullptr,
                             [a1, a2](const AnnotatorPtr &a) { return a->assignId(a1, a2, CellmlElementType::CONNECTION); },
                             [same](const AnyCellmlElementPtr &x) { return x->type() == CellmlElementType::CONNECTION && same(x->variablePair()); }});
        };
        connItem("c1-d1", v["c1/x"], v["d1/x"], c1, d1, v["c1/y"], v["d1/y"]);
        connItem("c1-c2", v["c1/x"], v["c2/x"], c1, c2);
    }

    J ids() const
    {
        J r = J::obj();
        for (auto &it : items) {
            std::string id = it.get();
            r.set(it.name, id.empty() ? "none" : id);
        }
        r.set("math", mathId.empty() ? "none" : mathId);
        return r;
    }
};

static CellmlElementType kindEnum(const std::string &k)
{
    static const std::map<std::string, CellmlElementType> m = {
        {"COMPONENT", CellmlElementType::COMPONENT}, {"COMPONENT_REF", CellmlElementType::COMPONENT_REF}, {"CONNECTION", CellmlElementType::CONNECTION},
        {"ENCAPSULATION", CellmlElementType::ENCAPSULATION}, {"IMPORT", CellmlElementType::IMPORT}, {"MAP_VARIABLES", CellmlElementType::MAP_VARIABLES},
        {"MODEL", CellmlElementType::MODEL}, {"RESET", CellmlElementType::RESET}, {"RESET_VALUE", CellmlElementType::RESET_VALUE},
        {"TEST_VALUE", CellmlElementType::TEST_VALUE}, {"UNIT", CellmlElementType::UNIT}, {"UNITS", CellmlElementType::UNITS}, {"VARIABLE", CellmlElementType::VARIABLE}, {"MATH", CellmlElementType::MATH}};
    return m.at(k);
}

// ids found in a printed document (attribute id="..."), sorted
static std::vector<std::string> idsInText(const std::string &text)
{
    std::vector<std::string> r;
    size_t p = 0;
    while ((p = text.find(" id=\"", p)) != std::string::npos) {
        size_t q = text.find('"', p + 5);
        r.push_back(text.substr(p + 5, q - p - 5));
        p = q;
    }
    std::sort(r.begin(), r.end());
    return r;
}

static void annotator(const J &sc, Emitter &out)
{
    std::map<std::string, std::unique_ptr<AModel>> models;
    models["m1"] = std::make_unique<AModel>("m1");
    models["m2"] = std::make_unique<AModel>("m2");
    // seeded ids
    for (auto &s : sc["seed"].a) {
        auto &am = *models[s["m"].str()];
        if (s["item"].str() == "math") {
            am.setMathId(s["id"].str());
            continue;
        }
        for (auto &it : am.items) {
            if (it.name == s["item"].str()) {
                it.set(s["id"].str());
            }
        }
    }
    auto ann = Annotator::create();
    std::string cur = "none";
    for (auto &c : sc["cmds"].a) {
        std::string op = c["op"].str();
        J ev = J::obj();
        ev.set("e", "ann").set("c", c);
        J pre = J::obj();
        for (auto &kv : models) {
            pre.set(kv.first, kv.second->ids());
        }
        ev.set("pre", pre);
        std::string res = "none";
        bool observe = false;
        if (op == "setModel") {
            cur = c["m"].str();
            ann->setModel(models[cur]->m);
        } else if (op == "edit") {
            auto &am = *models[c["m"].str()];
            std::string id = c["id"].str() == "none" ? "" : c["id"].str();
            if (c["item"].str() == "math") {
                am.setMathId(id);
            }
            for (auto &it : am.items) {
                if (it.name == c["item"].str()) {
                    it.set(id);
                }
            }
        } else if (op == "assignAllIds") {
            res = ann->assignAllIds() ? "ok" : "no";
            observe = true;
        } else if (op == "assignIds") {
            res = ann->assignIds(kindEnum(c["kind"].str())) ? "ok" : "no";
            observe = true;
        } else if (op == "assignId") {
            auto &am = *models[cur == "none" ? "m1" : cur];
            for (auto &it : am.items) {
                if (it.name == c["item"].str()) {
                    res = it.assign(ann);
                    if (res.empty()) {
                        res = "none";
                    }
                }
            }
            observe = true;
        } else if (op == "clearAllIds") {
            ann->clearAllIds();
            observe = true;
        } else if (op == "lookup") {
            observe = true;
        } else if (op == "printAuto") {
            auto &am = *models[c["m"].str()];
            std::string before = contentOf(am.m).dump();
            std::string text = Printer::create()->printModel(am.m, true);
            auto idsT = idsInText(text);
            bool unique = std::adjacent_find(idsT.begin(), idsT.end()) == idsT.end();
            // every element that can carry an id carries one: count elements vs ids is checked by re-parsing
            auto m2 = Parser::create(true)->parseModel(text);
            auto a2 = Annotator::create();
            a2->setModel(m2);
            size_t before2 = a2->ids().size();
            bool complete = m2 && !a2->assignAllIds(); // nothing left to assign
            (void)before2;
            ev.set("printUnique", J(unique)).set("printComplete", J(complete)).set("printUnchanged", J(contentOf(am.m).dump() == before));
            J pids = J::arr();
            for (auto &x : idsT) {
                pids.push(x);
            }
            ev.set("printedIds", pids);
        }
        J post = J::obj();
        for (auto &kv : models) {
            post.set(kv.first, kv.second->ids());
        }
        ev.set("r", res).set("cur", cur).set("post", post);
        if (observe && cur != "none") {
            // what the annotator reports, against the ids just read from the model
            auto &am = *models[cur];
            J lk = J::obj();
            std::set<std::string> present;
            for (auto &it : am.items) {
                if (!it.get().empty()) {
                    present.insert(it.get());
                }
            }
            present.insert("nosuchid");
            for (auto &id : present) {
                J one = J::obj();
                one.set("count", J(ann->itemCount(id)));
                auto el = ann->item(id);
                std::string which = "none";
                for (auto &it : am.items) {
                    if (el && it.is(el)) {
                        which = it.name;
                    }
                }
                one.set("item", which);
                lk.set(id, one);
            }
            ev.set("lookups", lk);
            J idsA = J::arr();
            auto v = ann->ids();
            std::sort(v.begin(), v.end());
            for (auto &x : v) {
                idsA.push(x);
            }
            J dupA = J::arr();
            auto d = ann->duplicateIds();
            std::sort(d.begin(), d.end());
            for (auto &x : d) {
                dupA.push(x);
            }
            ev.set("annIds", idsA).set("annDups", dupA);
            ev.set("log", loggerObs(ann));
        }
        out.emit(ev);
    }
}

static RegisterDriver reg("annotator", annotator);
