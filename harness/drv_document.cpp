// Driver "document" (C02): build an abstract model through the API, print it, strict-parse the text,
// dump what was read back with an independent traversal, print again and read back again.
#include "build.h"

using namespace libcellml;
std::string ruleName(const IssuePtr &issue);

static J rules(const LoggerPtr &lg)
{
    J r = J::arr();
    for (size_t i = 0; i < lg->issueCount(); ++i) {
        r.push(ruleName(lg->issue(i)));
    }
    return r;
}

static void document(const J &sc, Emitter &out)
{
    Built b = buildModel(sc["am"]);
    J ev = J::obj();
    ev.set("e", "roundtrip").set("fv", sc["fv"]);
    ev.set("built", contentOf(b.model));
    auto validator = Validator::create();
    validator->validateModel(b.model);
    ev.set("valid", J(validator->issueCount() == 0)).set("vrules", rules(validator)).set("vlog", loggerObs(validator));
    std::string before = contentOf(b.model).dump();
    auto printer = Printer::create();
    std::string text = printer->printModel(b.model);
    ev.set("printedLen", J(text.size())).set("prlog", loggerObs(printer));
    ev.set("unchangedByPrint", J(contentOf(b.model).dump() == before));
    auto parser = Parser::create(true);
    auto m2 = parser->parseModel(text);
    ev.set("prules", rules(parser)).set("plog", loggerObs(parser));
    ev.set("reparsed", contentOf(m2));
    std::string text2 = m2 ? Printer::create()->printModel(m2) : "";
    auto m3 = Parser::create(true)->parseModel(text2);
    ev.set("reprinted", contentOf(m3));
    ev.set("sameText", J(text == text2));
    out.emit(ev);
}

static RegisterDriver reg("document", document);
