// Driver "codegen" (C03): a batch of TLC-generated expression trees becomes one CellML model (y_i = tree_i over
// constants a, b, c); the generated C and Python are run and every computed value compared with TLC's exact value.
#include "codegen.h"

#include <cmath>

using namespace libcellml;
std::string ruleName(const IssuePtr &issue);

static std::string qstr(const J &q)
{
    char buf[64];
    snprintf(buf, sizeof buf, "%.17g", static_cast<double>(q["n"].num()) / static_cast<double>(q["d"].num(1)));
    return buf;
}

static bool closeEnough(double obs, double exp)
{
    if (std::isnan(obs)) {
        return false;
    }
    return std::fabs(obs - exp) <= 1e-9 * std::max(1.0, std::fabs(exp));
}

static double valueOf(const GenRun &r, const std::string &name, bool &found)
{
    for (size_t i = 0; i < r.variableInfo.size() && i < r.variables.size(); ++i) {
        if (r.variableInfo[i].name == name) {
            found = true;
            return r.variables[i];
        }
    }
    found = false;
    return NAN;
}

static void codegen(const J &sc, Emitter &out)
{
    const J &envv = sc["envv"];
    std::string text = "<?xml version=\"1.0\" encoding=\"UTF-8\"?>\n<model xmlns=\"http://www.cellml.org/cellml/2.0#\" xmlns:cellml=\"http://www.cellml.org/cellml/2.0#\" name=\"m\">\n<component name=\"main\">\n";
    std::string initForm = sc["initForm"].str("plain");
    std::string initSuffix = initForm == "upperE" ? "E0" : (initForm == "lowerE" ? "e0" : "");
    for (auto n : {"a", "b", "c"}) {
        text += std::string("<variable name=\"") + n + "\" units=\"dimensionless\" initial_value=\"" + qstr(envv[n]) + initSuffix + "\"/>\n";
    }
    size_t k = 0;
    std::string math = "<math xmlns=\"http://www.w3.org/1998/Math/MathML\">\n";
    for (auto &eq : sc["eqs"].a) {
        std::string y = "y" + std::to_string(k++);
        text += "<variable name=\"" + y + "\" units=\"dimensionless\"/>\n";
        math += "<apply><eq/><ci>" + y + "</ci>" + treeToMathml(eq["tree"]) + "</apply>\n";
    }
    text += math + "</math>\n</component>\n</model>\n";
    J ev = J::obj();
    ev.set("e", "values").set("env", sc["env"]);
    auto parser = Parser::create(true);
    auto model = parser->parseModel(text);
    auto validator = Validator::create();
    validator->validateModel(model);
    ev.set("parseIssues", J(parser->issueCount())).set("validErrors", J(validator->errorCount()));
    if (validator->errorCount() > 0) {
        ev.set("firstIssue", tok(validator->issue(0)->description()).substr(0, 300));
    }
    auto analyser = Analyser::create();
    analyser->analyseModel(model);
    auto am = analyser->model();
    ev.set("amType", AnalyserModel::typeAsString(am->type())).set("alog", loggerObs(analyser));
    if (analyser->errorCount() > 0) {
        ev.set("firstAnalyserIssue", tok(analyser->error(0)->description()).substr(0, 300));
    }
    auto gen = Generator::create();
    gen->setModel(am);
    std::string h = gen->interfaceCode();
    std::string c = gen->implementationCode();
    gen->setProfile(GeneratorProfile::create(GeneratorProfile::Profile::PYTHON));
    std::string py = gen->implementationCode();
    GenRun rc = runGeneratedC(h, c);
    GenRun rp = runGeneratedPython(py);
    ev.set("builtC", J(rc.built && rc.ran)).set("builtPy", J(rp.built && rp.ran)).set("diagC", tok(rc.diagnostics).substr(0, 400)).set("diagPy", tok(rp.diagnostics).substr(0, 400));
    J eqs = J::arr();
    k = 0;
    for (auto &eq : sc["eqs"].a) {
        std::string y = "y" + std::to_string(k++);
        double expect = static_cast<double>(eq["expect"]["n"].num()) / static_cast<double>(eq["expect"]["d"].num(1));
        bool fc = false, fp = false;
        double vc = valueOf(rc, y, fc);
        double vp = valueOf(rp, y, fp);
        J o = J::obj();
        o.set("tree", eq["tree"]).set("expect", eq["expect"]);
        o.set("okC", J(fc && closeEnough(vc, expect))).set("okPy", J(fp && closeEnough(vp, expect)));
        o.set("agree", J(fc && fp && (closeEnough(vc, vp) || (std::isnan(vc) && std::isnan(vp)))));
        char buf[64];
        snprintf(buf, sizeof buf, "%.12g", vc);
        o.set("obsC", std::string(buf));
        eqs.push(o);
    }
    ev.set("eqs", eqs);
    // helper functions defined by the generated code (C17): names only
    static const char *helpers[] = {"xor", "min", "max", "sec", "csc", "cot", "sech", "csch", "coth", "asec", "acsc", "acot", "asech", "acsch", "acoth"};
    static const char *pyHelpers[] = {"eq_func", "neq_func", "lt_func", "leq_func", "gt_func", "geq_func", "and_func", "or_func", "xor_func", "not_func",
                                      "min", "max", "sec", "csc", "cot", "sech", "csch", "coth", "asec", "acsc", "acot", "asech", "acsch", "acoth"};
    J hc = J::arr(), hp = J::arr();
    for (auto hname : helpers) {
        if (c.find(std::string("double ") + hname + "(double") != std::string::npos) {
            hc.push(hname);
        }
    }
    for (auto hname : pyHelpers) {
        if (py.find(std::string("def ") + hname + "(") != std::string::npos) {
            hp.push(hname);
        }
    }
    ev.set("helpersC", hc).set("helpersPy", hp);
    ev.set("cStruct", genRunToJson(rc)).set("pyVariableCount", J(static_cast<long long>(rp.variableCount)));
    ev.set("neqs", J(sc["eqs"].size()));
    out.emit(ev);
}

static RegisterDriver reg("codegen", codegen);
